#!/bin/sh
# Offline setup: syntax-check every specification module with SANY. Nothing is downloaded or compiled.
set -e
cd "$(dirname "$0")/spec"
fail=0
for f in *.tla; do
  [ -e "$f" ] || continue
  if ! tla-sany "$f" > /tmp/verif-sany.$$ 2>&1; then echo "SANY FAILED: $f"; cat /tmp/verif-sany.$$; fail=1; fi
done
rm -f /tmp/verif-sany.$$
exit $fail
