#!/bin/bash
# run every registered quick (or thorough) check on the unchanged /repo, one after the other; prints one line per check
tier=${1:-quick}
cd "$(dirname "$0")/.."
for p in C12 C19 C20 C16 C17 C05 C18 C04 C13 C14 C03 C06 C15 C08 C11 C02 C07 C01 C09 C10; do
  s=$(date +%s)
  out=$(./check $p --tier $tier 2>&1 | grep -E '^(OK|VIOLATION|KNOWN-FINDING|MACHINERY)' | cut -c1-160 | tail -2 | tr '\n' ' ')
  echo "$p $(( $(date +%s) - s ))s $out"
done
