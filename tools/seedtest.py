#!/usr/bin/env python3
"""Evaluate one seeded change:  tools/seedtest.py <dir with patch.diff + demo> <property id> [--checks C01,C02] [--tier quick]
 1. in a scratch worktree: the patch applies, the 64 repository tests pass, the demonstration fails with it and passes without it;
 2. on /repo itself: apply the patch, run the registered check(s), undo the patch straight afterwards.
Prints a JSON summary; never leaves /repo modified."""
import argparse
import json
import os
VERIF_HOME = os.path.dirname(os.path.dirname(os.path.abspath(__file__)))   # the /verif tree this script belongs to (a snapshot works too)
import shutil
import subprocess
import sys
import tempfile

REPO = "/repo"


def sh(cmd, cwd=None, env=None, timeout=1800):
    p = subprocess.run(cmd, shell=True, cwd=cwd, env=env, capture_output=True, text=True, timeout=timeout)
    return p.returncode, (p.stdout + p.stderr)


def demo_cmd(d):
    if os.path.exists(os.path.join(d, "demo.py")):
        return f"/venv/bin/python {d}/demo.py"
    for n in ("demo_test.py", "test_demo.py"):
        if os.path.exists(os.path.join(d, n)):
            return f"/venv/bin/python -m pytest -q -p no:cacheprovider {d}/{n}"
    raise SystemExit("no demo found in " + d)


def main():
    ap = argparse.ArgumentParser()
    ap.add_argument("dir")
    ap.add_argument("pid")
    ap.add_argument("--checks")
    ap.add_argument("--tier", default="quick")
    ap.add_argument("--skip-verify", action="store_true")
    ap.add_argument("--worktree", action="store_true", help="run the checks against a patched scratch worktree (VERIF_REPO) instead of patching /repo")
    a = ap.parse_args()
    d = os.path.abspath(a.dir)
    patch = os.path.join(d, "patch.diff")
    res = {"dir": d, "property": a.pid}
    if not a.skip_verify:
        wt = tempfile.mkdtemp(prefix="seedwt-")
        os.rmdir(wt)
        rc, out = sh(f"git -C {REPO} worktree add -q --detach {wt} HEAD")
        try:
            env = dict(os.environ, PYTHONPATH=f"{wt}/src", REPO_SRC=f"{wt}/src", PYTHONDONTWRITEBYTECODE="1")
            rc0, _ = sh(demo_cmd(d), cwd=wt, env=env, timeout=600)
            rc, out = sh(f"git apply {patch}", cwd=wt)
            res["applies"] = rc == 0
            rct, outt = sh("/venv/bin/python -m pytest -q -p no:cacheprovider", cwd=wt, env=env, timeout=900)
            res["tests_pass_with_patch"] = rct == 0
            res["tests_tail"] = outt.strip().splitlines()[-1] if outt.strip() else ""
            rc1, out1 = sh(demo_cmd(d), cwd=wt, env=env, timeout=600)
            res["demo_passes_without"] = rc0 == 0
            res["demo_fails_with"] = rc1 != 0
        finally:
            sh(f"git -C {REPO} worktree remove --force {wt}")
            shutil.rmtree(wt, ignore_errors=True)
    checks = (a.checks or a.pid).split(",")
    if a.worktree:
        wt = tempfile.mkdtemp(prefix="seedwt-")
        os.rmdir(wt)
        sh(f"git -C {REPO} worktree add -q --detach {wt} HEAD")
        res["checks"] = {}
        try:
            rc, out = sh(f"git apply {patch}", cwd=wt)
            if rc != 0:
                raise SystemExit("patch does not apply: " + out)
            for c in checks:
                rc, out = sh(f"./check {c} --tier {a.tier}", cwd=VERIF_HOME, env=dict(os.environ, VERIF_REPO=wt, VERIF_EVIDENCE_DIR=wt + "/.verif-evidence", VERIF_REPLAYS_DIR=wt + "/.verif-replays"), timeout=3000)
                lines = [ln for ln in out.splitlines() if ln.startswith(("VIOLATION", "KNOWN-FINDING", "MODEL-DRIFT", "OK ", "MACHINERY"))]
                clauses = sorted({ln.split("clause=")[1].split()[0] for ln in lines if "clause=" in ln})
                res["checks"][c] = {"exit": rc, "violation": rc == 1, "clauses": clauses, "drift": sum(1 for ln in lines if ln.startswith("MODEL-DRIFT")),
                                    "lines": [ln[:200] for ln in lines[:4]]}
        finally:
            sh(f"git -C {REPO} worktree remove --force {wt}")
            shutil.rmtree(wt, ignore_errors=True)
        print(json.dumps(res, indent=1))
        return
    rc, out = sh(f"git -C {REPO} status --porcelain")
    if out.strip():
        raise SystemExit("/repo is not clean: " + out)
    rc, out = sh(f"git -C {REPO} apply {patch}")
    if rc != 0:
        raise SystemExit("patch does not apply to /repo: " + out)
    res["checks"] = {}
    try:
        for c in checks:
            scratch = tempfile.mkdtemp(prefix="seedev-")
            rc, out = sh(f"./check {c} --tier {a.tier}", cwd=VERIF_HOME, timeout=3000,
                         env=dict(os.environ, VERIF_EVIDENCE_DIR=scratch + "/evidence", VERIF_REPLAYS_DIR=scratch + "/replays"))
            shutil.rmtree(scratch, ignore_errors=True)
            lines = [ln for ln in out.splitlines() if ln.startswith(("VIOLATION", "KNOWN-FINDING", "MODEL-DRIFT", "OK ", "MACHINERY"))]
            clauses = sorted({ln.split("clause=")[1].split()[0] for ln in lines if "clause=" in ln})
            res["checks"][c] = {"exit": rc, "violation": rc == 1, "clauses": clauses, "drift": sum(1 for ln in lines if ln.startswith("MODEL-DRIFT")),
                                "lines": [ln[:200] for ln in lines[:4]]}
    finally:
        sh(f"git -C {REPO} checkout -- .")
        sh(f"git -C {REPO} clean -fdq src")
    rc, out = sh(f"git -C {REPO} status --porcelain")
    res["repo_clean_after"] = not out.strip()
    print(json.dumps(res, indent=1))


if __name__ == "__main__":
    main()
