#!/usr/bin/env python3
"""Copy evaluated seeded changes into /verif/seeded/<property>-<variant>/ : patch.diff, the demonstration, meta.json
(which property it breaks, what it needs to manifest, what was run and what the checks reported).
usage: tools/collect_seeded.py <seeded_out dir> <results dir>"""
import glob
import json
import os
import shutil
import sys

src, resd = sys.argv[1], sys.argv[2]
dst = os.path.join(os.path.dirname(os.path.dirname(os.path.abspath(__file__))), "seeded")
os.makedirs(dst, exist_ok=True)
rows = []
for rf in sorted(glob.glob(os.path.join(resd, "*.json"))):
    pid, var = os.path.basename(rf)[:-5].split("_")
    try:
        res = json.load(open(rf))
    except Exception:
        print("unreadable", rf)
        continue
    d = os.path.join(src, pid, var)
    if not (res.get("applies") and res.get("tests_pass_with_patch") and res.get("demo_fails_with") and res.get("demo_passes_without")):
        print("not confirmed, skipped:", pid, var, {k: res.get(k) for k in ("applies", "tests_pass_with_patch", "demo_fails_with", "demo_passes_without")})
        continue
    out = os.path.join(dst, f"{pid}-{var}")
    os.makedirs(out, exist_ok=True)
    shutil.copy(os.path.join(d, "patch.diff"), out)
    for n in ("demo.py", "demo_test.py", "test_demo.py"):
        if os.path.exists(os.path.join(d, n)):
            shutil.copy(os.path.join(d, n), out)
    meta = {}
    try:
        meta = json.load(open(os.path.join(d, "meta.json")))
    except Exception:
        pass
    chk = res.get("checks", {})
    caught = sorted(c for c, v in chk.items() if v.get("violation"))
    meta.update({
        "property": pid, "id": f"{pid}-{var}",
        "needs_to_manifest": meta.get("what_it_needs_to_manifest", ""),
        "confirmed": {"patch_applies": True, "repository_tests_pass_with_patch": res.get("tests_tail", ""), "demo_fails_with_patch": True, "demo_passes_without_patch": True},
        "ran": [f"tools/seedtest.py {d} {pid} --worktree  (scratch worktree of /repo HEAD + patch; ./check {c} --tier quick with VERIF_REPO pointing at it)" for c in chk],
        "detected_by": caught,
        "clauses": {c: v.get("clauses", []) for c, v in chk.items()},
        "model_drift_reports": {c: v.get("drift", 0) for c, v in chk.items()},
    })
    meta.pop("what_it_needs_to_manifest", None)
    json.dump(meta, open(os.path.join(out, "meta.json"), "w"), indent=1)
    rows.append((f"{pid}-{var}", meta.get("summary", "")[:110], ", ".join(sum((v for v in meta["clauses"].values()), [])) or "NOT DETECTED"))
for r in rows:
    print(" | ".join(r))
print(len(rows), "seeded changes collected")
