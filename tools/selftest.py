#!/venv/bin/python
"""Binding self-test (not a property check): record real traces on the current tree, corrupt single recorded fields, and show that the TLC
judges reject exactly the corrupted traces.  A judge that accepted a corrupted trace would be vacuous.

  tools/selftest.py            runs all cases, prints one line per case, exits 0 iff every corruption is flagged and no clean trace is."""
import copy
import os
import sys

HERE = os.path.dirname(os.path.dirname(os.path.abspath(__file__)))
sys.path.insert(0, HERE)
sys.path.insert(0, os.environ.get("VERIF_REPO", "/repo") + "/src")
os.chdir(HERE)
os.environ.setdefault("PYTHONHASHSEED", "0")

from harness import common as C  # noqa: E402

RESULTS = []


def expect(name, jr, bad_tids, kind="V", clause_prefix=""):
    flagged = {v[1] for v in jr[kind] if str(v[2]).startswith(clause_prefix)}
    ok = flagged == set(bad_tids)
    RESULTS.append((name, ok, sorted(flagged), sorted(bad_tids)))
    print(("PASS " if ok else "FAIL ") + f"{name}: corrupted traces {sorted(bad_tids)} flagged {sorted(flagged)}")


def lookup(run):
    from harness import c12
    scen = [{"rows": [{"k": "F", "len": 3, "idx": 1}, {"k": "G", "len": 2, "idx": 0}, {"k": "F", "len": 1, "idx": 3}], "a": a, "b": b, "tid": t}
            for t, (a, b) in enumerate([(1, 1), (2, 5), (4, 5), (3, 6), (6, 9)], 1)]
    traces = [c12.run_case(s) for s in scen]
    bad = copy.deepcopy(traces)
    bad[1]["res"]["end"] += 1            # span end off by one
    bad[3]["res"]["rows"] = bad[3]["res"]["rows"][:-1]   # a row lost
    jr = C.judge("LookupTrace", bad, run.dir, consts="MaxRows = 4 Lens = {1, 2, 3} Fixed = TRUE", spec="TraceSpec", label="st-lookup")
    expect("C12 lookup: span end +1 / row dropped", jr, [2, 4])


def ovr(run):
    from harness import c18
    ops = [{"n": "DS", "e": 0, "side": "", "ks": False, "ke": False}, {"n": "TF", "e": 0, "side": "first", "ks": False, "ke": False}]
    src = [{"k": "F", "name": "c1", "s": 11, "e": 15, "st": 1}, {"k": "G", "name": "scaffold", "s": 1, "e": 2, "st": 0}, {"k": "F", "name": "c3", "s": 31, "e": 35, "st": -1}]
    traces = [c18.run_case({"tid": t, "src": src, "a": a, "b": b, "ops": ops}) for t, (a, b) in enumerate([(2, 9), (3, 12), (1, 4)], 1)]
    bad = copy.deepcopy(traces)
    bad[0]["nodes"][1]["start"] += 1                 # reported start no longer matches the rows
    bad[1]["nodes"][0]["d"]["eo"] += 1               # reported end overhang wrong
    jr = C.judge("OverlapResultTrace", bad, run.dir, consts="MaxRows = 3 Lens = {1, 2, 5} ErrLens = {1, 2, 3}", spec="TraceSpec", header={"ops": ops},
                 label="st-ovr")
    expect("C18 overlap result: start +1 / end overhang +1", jr, [1, 2])


def cache(run):
    from harness import c15
    os.environ["VERIF_C15_ROOT"] = str(run.sub("boxes"))
    proto, nbf, nba, _ = c15.dry_run()
    toks = [["f", "1"], ["b", "p1"]] + [["s", "p1"]] * 30 + [["t", ""], ["b", "p1"]] + [["s", "p1"]] * 12
    traces = [c15.replay({"tid": t, "cls": "seq", "tokens": toks}) for t in (1, 2, 3)]
    consts = (f'Procs = {{"p1", "p2", "p3"}} NBfai = {nbf} NBagp = {nba} MaxClock = 99 MaxVer = 2 Protocol = "{proto}" MaxSwitch = 99 AllowCrash = TRUE '
              'AllowHistory = TRUE MaxStarts = 99 StrictNewer = TRUE FlushModes = {TRUE, FALSE} CrashInWrites = "all"')
    bad = copy.deepcopy(traces)
    for e in bad[1]["events"]:
        if e["op"] == "end" and e["kind"] == "done":
            e["asm"] = "0" * 12          # a completed load that holds a different assembly
            break
    stat = [e for e in bad[2]["events"] if e["op"] == "stat" and e["f"] == "fai" and e["ex"] == 1][0]
    stat["mt"] += 5                      # logged mtime disagrees with the model's file system
    jr = C.judge("IndexCacheTrace", bad, run.dir, consts=consts, spec="JudgeSpec", label="st-cache-j")
    expect("C15 cache: digest of a completed load altered (P-clause)", jr, [2])
    ar = C.judge("IndexCacheTrace", bad, run.dir, consts=consts, spec="TraceSpec", label="st-cache-a")
    acc = {a[1] for a in ar["M"] if a[2] == "accepted"}
    ok = acc == {1}
    RESULTS.append(("C15 trace acceptance", ok, sorted(acc), [1]))
    print(("PASS " if ok else "FAIL ") + f"C15 cache: model accepts only the uncorrupted trace (accepted {sorted(acc)}; stat mtime +5 and altered outcome rejected)")


def fasta(run):
    from harness import fasta_engine as F
    os.environ["VERIF_FA_ROOT"] = str(run.sub("fa"))
    recs = [{"name": "s1", "hlen": 3, "res": list("ACNNGT"), "w": 4, "eol": 1}]
    opts = {"idx_all_B": True, "reads": True, "derived": True, "singles": True}
    traces = [F.run_file({"tid": t, "recs": recs, "fnl": 1, "Bs": [1, 3, F.BIG], "Ls": [60, 2], "opts": opts, "seed": 0}) for t in (1, 2, 3, 4)]
    bad = copy.deepcopy(traces)
    bad[1]["idxruns"][0]["idx"][0]["off"] += 1         # byte offset of the first residue
    bad[2]["reads"][3]["got"][0] = "T"                 # one residue of one interval read
    bad[3]["streams"][2]["lines"][0][0] = "G"          # one streamed residue
    jr = C.judge("FastaTrace", bad, run.dir, consts=F.FILE_CONSTS["quick"][1], spec="TraceSpec", label="st-fasta")
    expect("C04/C03 fasta: offset +1 / read residue / streamed residue", jr, [2, 3, 4])


def remap(run):
    from harness import remap_engine as R
    inp = [{"name": "S1", "rows": [{"k": "F", "name": "S1c1", "s": 4, "e": 40, "st": 1}, {"k": "G", "name": "scaffold", "s": 1, "e": 200, "st": 0},
                                   {"k": "F", "name": "S1c3", "s": 10, "e": 46, "st": -1}]}]
    mp = [{"painted": 1, "pieces": [{"src": "S1", "a": 1, "b": 20, "st": 1, "tags": []}, {"src": "S1", "a": 21, "b": 274, "st": -1, "tags": []}]}]
    sc = {"tn": 2, "td": 1, "naming": "free", "valid": 1, "input": inp, "map": mp, "cls": "valid", "haps": [""], "style": "plain"}
    traces = [R.run_scenario(dict(sc, tid=t)) for t in (1, 2, 3, 4)]
    bad = copy.deepcopy(traces)
    fr = [r for r in bad[1]["out"][0]["rows"] if r["k"] == "F"][0]
    fr["e"] -= 1                                       # one base lost
    bad[2]["stats"]["joins"] += 1                      # statistics off by one
    bad[3]["out"][0]["rows"] = [r for r in bad[3]["out"][0]["rows"] if r["k"] == "F"]   # gaps dropped between fragments
    jr = R.judge(run, bad, ["C01", "C02", "C07", "C11"], label="st-remap")
    flagged = {}
    for v in jr["V"]:
        flagged.setdefault(v[1], set()).add(v[2].split(".")[0])
    ok = set(flagged) == {2, 3, 4} and "C01" in flagged[2] and "C11" in flagged[3] and "C07" in flagged[4]
    RESULTS.append(("remap", ok, {k: sorted(v) for k, v in flagged.items()}, [2, 3, 4]))
    print(("PASS " if ok else "FAIL ") + f"C01/C11/C07 remap: base lost / joins +1 / gaps dropped -> flagged {({k: sorted(v) for k, v in flagged.items()})}")


def reports(run):
    from harness import c10
    from harness import remap_engine as R
    objs, _ = c10.export(run, 2, "SUPER_", 40, 4, 0)
    for i, o in enumerate(objs, 1):
        o.update(tid=i, cls="2-hap", style="hap")
    traces = [R.run_scenario(o) for o in objs]
    ok = [t for t in traces if t["status"] == "ok" and t.get("report")]
    bad = copy.deepcopy(ok[:4])
    for i, t in enumerate(bad, 1):
        t["tid"] = i
    bad[1]["report"][0]["lmg"] += 1                                    # sequence length of one chromosome in the report
    bad[2]["report"][-1]["loc"] = "false" if bad[2]["report"][-1]["loc"] == "true" else "true"
    bad[3]["sanity"]["mismatch"] = 1 - bad[3]["sanity"]["mismatch"]    # the autosome-count warning
    jr = R.judge(run, bad, ["MODEL"], label="st-reports")
    expect("Reports: report length +1 / localised flipped / sanity warning flipped (model drift)", jr, [2, 3, 4], kind="M")


def cliroute(run):
    from harness import remap_engine as R
    inp = [{"name": "S1", "rows": [{"k": "F", "name": "S1c1", "s": 4, "e": 40, "st": 1}, {"k": "G", "name": "scaffold", "s": 1, "e": 200, "st": 0},
                                   {"k": "F", "name": "S1c3", "s": 10, "e": 46, "st": -1}]}, {"name": "S2", "rows": [{"k": "F", "name": "S2c1", "s": 1, "e": 30, "st": 1}]}]
    mp = [{"painted": 1, "pieces": [{"src": "S1", "a": 1, "b": 20, "st": 1, "tags": []}, {"src": "S1", "a": 21, "b": 274, "st": -1, "tags": []}]},
          {"painted": 0, "pieces": [{"src": "S2", "a": 1, "b": 30, "st": 1, "tags": ["Haplotig"]}]}]
    sc = {"tn": 2, "td": 1, "naming": "free", "valid": 1, "input": inp, "map": mp, "cls": "valid", "haps": ["", ""], "style": "plain", "root": str(run.sub("clir"))}
    traces = [R.run_scenario_cli(dict(sc, tid=t)) for t in (1, 2, 3, 4)]
    bad = copy.deepcopy(traces)
    bad[1]["stats"]["joins"] += 1                       # the log line's join count
    bad[2]["yaml"]["haplotig_removals"] += 1            # the info yaml's haplotig count
    bad[3]["out"] = [o for o in bad[3]["out"] if o["asm_lc"] != "haplotig"]     # the haplotigs file left unwritten
    jr = R.judge(run, bad, ["C01", "C11"], label="st-cli")
    flagged = {}
    for v in jr["V"]:
        flagged.setdefault(v[1], set()).add(v[2])
    ok = set(flagged) == {2, 3, 4} and "C11.joins" in flagged[2] and "C11.haplotig_removals" in flagged[3] and "C01.exact_partition" in flagged[4]
    RESULTS.append(("cli route", ok, {k: sorted(v) for k, v in flagged.items()}, [2, 3, 4]))
    print(("PASS " if ok else "FAIL ") + f"CLI route: log joins +1 / yaml haplotig count +1 / haplotigs file missing -> flagged {({k: sorted(v) for k, v in flagged.items()})}")


def focli(run):
    from harness import c19
    frs = [{"name": "a", "s": 1, "e": 5, "st": 1}, {"name": "a", "s": 4, "e": 9, "st": -1}, {"name": "b", "s": 2, "e": 3, "st": 1}]
    sc = {"frs": frs, "cut": 1, "baits": [{"name": "a", "s": 5, "e": 6, "st": 1}], "fmt": "agp"}
    traces = [c19.run_focli(dict(sc, tid=t)) for t in (1, 2, 3)]
    bad = copy.deepcopy(traces)
    bad[1]["reports"][0]["ovr"] += 1                      # reported overlap length
    bad[2]["reports"][-1]["pos"] = "row 7"                # position label
    jr = C.judge("IntervalsTrace", bad, run.dir, consts='N = 3 Names = {"a", "b"} MaxFrags = 3', spec="TraceSpec", label="st-focli")
    expect("find-overlaps CLI: overlap length +1 / position label (model drift)", jr, [2, 3], kind="M")


def afcli(run):
    from harness import agp_engine as A
    os.environ["VERIF_AGP_ROOT"] = str(run.sub("agp"))
    pool = {"header": [], "scaffolds": [{"name": "N", "rows": [{"k": "F", "name": "U", "s": 100, "e": 600, "st": -1, "tags": []}, {"k": "G", "name": "contig", "s": 1, "e": 1, "st": 0, "tags": []},
                                                              {"k": "G", "name": "centromere", "s": 1, "e": 200, "st": 0, "tags": []}, {"k": "F", "name": "a", "s": 1, "e": 9, "st": 1, "tags": []}]}]}
    base = {"sc": {"files": [{"ext": "txt", "a": 2}], "i": "", "o": "tpf", "f": "", "n": "", "stdin_asm": 1}, "infmts": ["AGP"], "asms": [pool]}
    traces = [A.run_afcli(dict(base, tid=t)) for t in (1, 2, 3)]
    bad = copy.deepcopy(traces)
    bad[1]["lines"][0][1] = "TYPE-9"            # one field of the text written
    bad[2]["where"] = "stdout"                  # claims the output went to STDOUT although -o was given
    jr = C.judge("AgpTpfTrace", bad, run.dir, consts="NRandomAsm = 0", spec="TraceSpec", label="st-afcli")
    # the text clause is C05's (a violation), the destination clause is model drift
    jr["X"] = [v for v in jr["V"] if str(v[2]).startswith("C05.asm_format_output")] + jr["M"]
    expect("asm-format CLI: one output field (C05.asm_format_output) / output destination (model drift)", jr, [2, 3], kind="X")


def clobber(run):
    from harness import cli_engine as E
    root = str(run.sub("cli"))
    ref = E.clobber_reference(root, "single", "fa", "tpf", 0)
    base = {"ref": ref, "root": root, "cfg": "single", "in_fmt": "fa", "out_fmt": "tpf", "log": 0}
    traces = [E.clobber_case(dict(base, tid=t, pre=[1], clobber=0)) for t in (1, 2, 3)]
    bad = copy.deepcopy(traces)
    bad[1]["exit"] = 0                                 # pretends the run succeeded
    bad[2]["unchanged"] = []                           # pretends the pre-existing file was altered
    jr = C.judge("ClobberTrace", bad, run.dir, consts="N = 1 MaxPre = 1", spec="TraceSpec", label="st-clobber")
    expect("C16 clobber: exit 0 / pre-existing file altered", jr, [2, 3])


def main():
    run = C.Run("selftest", "quick")
    try:
        for fn in (lookup, ovr, cache, fasta, remap, reports, cliroute, focli, afcli, clobber):
            fn(run)
    finally:
        run.cleanup()
    bad = [r for r in RESULTS if not r[1]]
    print(f"selftest: {len(RESULTS) - len(bad)}/{len(RESULTS)} cases pass")
    sys.exit(1 if bad else 0)


if __name__ == "__main__":
    main()
