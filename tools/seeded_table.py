#!/usr/bin/env python3
"""Print the markdown table of seeded changes (seeded/*/meta.json) for DESIGN.md section 14.6."""
import glob
import json
import os

root = os.path.join(os.path.dirname(os.path.dirname(os.path.abspath(__file__))), "seeded")
print("| id | change (needs to manifest) | caught by (clauses) |")
print("|----|----------------------------|---------------------|")
n = det = 0
for d in sorted(glob.glob(root + "/*/meta.json")):
    m = json.load(open(d))
    n += 1
    clauses = sorted({c for v in m.get("clauses", {}).values() for c in v})
    if clauses:
        det += 1
    summ = m.get("summary", "").replace("|", "/")
    summ = summ[:150] + ("..." if len(summ) > 150 else "")
    print(f"| {m['id']} | {summ} | {', '.join(clauses) if clauses else '**not detected** - ' + m.get('note', '')} |")
print()
print(f"{det} of {n} seeded changes are reported as VIOLATION by the quick tier of at least one registered check.")
