#!/usr/bin/env python3
"""Regenerate MANIFEST.json from tools/registry.json (one entry per built check) and properties.jsonl."""
import json
from pathlib import Path

V = Path(__file__).resolve().parent.parent
props = [json.loads(l) for l in (V / "properties.jsonl").read_text().splitlines() if l.strip()]
reg = json.loads((V / "tools" / "registry.json").read_text())
checks = []
na = []
for p in props:
    pid = p["id"]
    r = reg["checks"].get(pid)
    if not r:
        na.append({"property_id": pid, "reason": reg["not_applicable"].get(pid, "check not built yet (work in progress; DESIGN.md section 5 has the plan)")})
        continue
    checks.append({
        "property_id": pid,
        "quick_cmd": f"./check {pid} --tier quick",
        "thorough_cmd": f"./check {pid} --tier thorough",
        "evidence_file": f"/verif/evidence/{pid}.json",
        "replay_cmd_template": f"./check {pid} --replay {{path}}",
        "engine": r["engine"],
        "level_claimed": {"category": r.get("category", "model_checking"), "text": r["text"], "design_ref": r.get("design_ref", "DESIGN.md section 5")},
        "level_note": r["note"],
        "technique": r["technique"],
    })
m = {
    "version": 1,
    "setup_cmd": "./setup.sh",
    "hooks": reg["hooks"],
    "engines": reg["engines"],
    "checks": checks,
    "notes": reg["notes"],
    "not_applicable": na,
}
(V / "MANIFEST.json").write_text(json.dumps(m, indent=1) + "\n")
print(f"{len(checks)} checks, {len(na)} not applicable")
