"""C14 - reversal and reverse-complement are involutions that commute with output.  Spec: Fasta.tla (RevComp, Comp), Rows.tla, FastaTrace.tla."""
from harness import common as C
from harness import fasta_engine as E

OPTS = {"multis": 5, "reverse": True, "strand0": True, "singles": False}
RULE = ("all scaffolds of <= 2 rows over a pool of fragments (strands +,-,unknown, with and without tags) and gaps, exported by TLC, reversed once and "
        "twice by the real Scaffold.reverse; the 256-entry complement table; 300 seeded byte strings reverse-complemented twice; for every FASTA "
        "file of the bounded universe seeded multi-row assemblies and their real reversals streamed under every buffer size")


def sig(clause, detail, tr):
    return f"{clause}/{detail}"


def main(tier, replay=None):
    run = C.Run("C14", tier)
    if replay:
        traces, jr = E.replay_one(run, tier, replay, OPTS, ())
        C.finish(run, "C14", C.report(run, "C14", jr["V"], {t["tid"]: t for t in traces}, sig_of=sig))
    mcs, traces, jr = E.engine(run, tier, "C14", OPTS, ("stream",), sample=3000 if tier == "quick" else 20000, extra_kinds=("rev", "table"))
    n = C.report(run, "C14", jr["V"], {t["tid"]: t for t in traces}, sig_of=sig)
    cov = E.coverage(mcs, traces, jr, RULE)
    cov["known_findings_seen"] = run.known
    C.write_evidence(run, "C14", cov, assumptions=["TLC + Json trusted", "the IUPAC complement is stated in FastaTrace!CompCodes / Fasta!CompPairs from the "
                     "standard, independently of the code's table", "file universe sampled (seeded) for the streaming clause"])
    C.finish(run, "C14", n)
