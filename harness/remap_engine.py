"""Remap engine shared by C01, C02, C07, C08, C11 (and C09/C10 with tagged maps): scenarios are exported by TLC from
PretextView.tla, executed by the real BuildAssembly, and the recorded outputs judged by TLC (RemapTrace.tla)."""
import json
import random

from harness import common as C

TEXELS = {"quick": [(2, 1), (3, 2), (5, 3), (5, 1)], "thorough": [(1, 1), (3, 2), (2, 1), (5, 2), (5, 3), (7, 4), (3, 1), (5, 1)]}


def mkrow(r):
    from tola.assembly.fragment import Fragment
    from tola.assembly.gap import Gap
    if r["k"] == "G":
        return Gap(r["e"] - r["s"] + 1, r["name"])
    return Fragment(r["name"], r["s"], r["e"], r["st"], tuple(r.get("tags", ())))


def prow(r):
    from tola.assembly.gap import Gap
    if isinstance(r, Gap):
        return {"k": "G", "name": r.gap_type, "s": 1, "e": r.length, "st": 0}
    return {"k": "F", "name": r.name, "s": r.start, "e": r.end, "st": r.strand}


GIANT = 2 ** 25


def giant(sc, k=GIANT):
    """the same scenario on a k times coarser grid: every base becomes k bases, the texel k times as wide (scaffolds of several Gbp)"""
    def up(r):
        return dict(r, s=(r["s"] - 1) * k + 1, e=r["e"] * k) if r["k"] == "F" else dict(r, s=1, e=(r["e"] - r["s"] + 1) * k)
    out = dict(sc)
    out["input"] = [{"name": s["name"], "rows": [up(r) for r in s["rows"]]} for s in sc["input"]]
    out["map"] = [dict(g, pieces=[dict(p, a=(p["a"] - 1) * k + 1, b=p["b"] * k) for p in g["pieces"]]) for g in sc["map"]]
    out["tn"] = sc["tn"] * k
    return out


def ungiant(rows, k=GIANT):
    """back to the fine grid; the 200 bp join gap is not stretched and stays as it is.  None if a row is off the grid."""
    out = []
    for r in rows:
        if r["k"] == "F":
            if (r["s"] - 1) % k or r["e"] % k:
                return None
            out.append(dict(r, s=(r["s"] - 1) // k + 1, e=r["e"] // k))
        else:
            n = r["e"] - r["s"] + 1
            if n % k == 0:
                out.append(dict(r, s=1, e=n // k))
            elif n == 200 and r["name"] == "scaffold":
                out.append(dict(r))
            else:
                return None
    return out


def build_objects(sc):
    from tola.assembly.assembly import Assembly
    from tola.assembly.fragment import Fragment
    from tola.assembly.gap import Gap
    from tola.assembly.indexed_assembly import IndexedAssembly
    from tola.assembly.scaffold import Scaffold
    scs = [Scaffold(s["name"], [mkrow(r) for r in s["rows"]]) for s in sc["input"]]
    ia = IndexedAssembly("in", scaffolds=scs)
    pscs = []
    for n, g in enumerate(sc["map"], 1):
        rows = []
        for pc in g["pieces"]:
            if rows:
                rows.append(Gap(100, "scaffold"))
            tags = (("Painted",) if g["painted"] else ()) + tuple(pc.get("tags", ()))
            rows.append(Fragment(pc["src"], pc["a"], pc["b"], pc["st"], tags))
        pscs.append(Scaffold(f"Scaffold_{n}", rows))
    p = Assembly("pretext", scaffolds=pscs, bp_per_texel=sc["tn"] / sc["td"])
    return ia, p


def inkey(s):
    """assembly prefix of an input scaffold: its first contig is named <letters><digits>_... (hap1_scaffold_3, HAP2_SCAFFOLD_4_1), lower-cased; else """""
    fr = [r for r in s["rows"] if r["k"] == "F"]
    head = fr[0]["name"].split("_")[0] if fr and "_" in fr[0]["name"] else ""
    a = head.rstrip("0123456789")
    return head.lower() if a and a != head and a.isascii() and a.isalpha() else ""


def reports(st, out, full=True):
    """the derived reports of assembly_stats.py on the output assemblies, as records (Reports.tla)"""
    import csv as csvmod
    import io
    import re
    pas = [{"asm_lc": "" if k == "Primary" else k.lower(), "breaks": v["manual_breaks"], "joins": v["manual_joins"]} for k, v in st.per_assembly_stats.items()]
    if not full:
        return {"pas": pas}
    txt = st.chromosomes_report_csv(out)
    rows = list(csvmod.reader(io.StringIO(txt)))[1:] if txt else []
    report = [{"asm": r[0], "name": r[1], "chr": r[2], "loc": r[3], "orig": r[4], "len": int(r[5]), "lmg": int(r[6])} for r in rows]
    mm = st.check_consistent_autosome_count(out) or []
    lg = st.check_for_large_haplotigs(out) or []
    large = [re.match(r"Haplotig (\S+) ", m).group(1) for m in lg]
    return {"report": report, "pas": pas, "sanity": {"mismatch": 1 if mm else 0, "large": large}}


def run_scenario(sc):
    from tola.assembly.build_assembly import BuildAssembly
    from tola.assembly.gap import Gap
    t = {"tid": sc["tid"], "cls": sc["cls"], "tn": sc["tn"], "td": sc["td"], "naming": sc.get("naming", ""), "valid": sc["valid"],
         "input": sc["input"], "map": sc["map"], "haps": sc.get("haps", ["" for _ in sc["input"]]), "style": sc.get("style", "plain"), "status": "ok", "out": [], "stats": {"cuts": 0, "breaks": 0, "joins": 0}, "msg": ""}

    def go(_):
        ia, p = build_objects(giant(sc) if sc.get("giant") else sc)
        ba = BuildAssembly("o", default_gap=Gap(200, "scaffold"), autosome_prefix=sc.get("prefix") or "SUPER_")
        ba.remap_to_input_assembly(p, ia)
        out = ba.assemblies_with_scaffolds_fused()
        csv = []
        if "prefix" in sc:
            for key, asm in out.items():
                txt = ba.assembly_stats.chromosome_name_csv(asm) if asm.curated else None
                if txt:
                    csv.append({"asm": key or "", "lines": [ln.split(",") for ln in txt.splitlines()]})
        rep = reports(ba.assembly_stats, out, full="prefix" in sc)
        return out, ba.assembly_stats, csv, rep
    r = C.guarded(go, None, 20.0)
    if r[0] == "hang":
        t["status"] = "hang"
    elif r[0] == "exc":
        t["status"] = "exc:" + r[1]
        t["msg"] = r[2][:160]
    else:
        out, st, csv, rep = r[1]
        if "prefix" in sc:
            t.update(prefix=sc["prefix"], nhaps=sc["nhaps"], csv=csv)
        t.update(rep)
        t["inkeys"] = [inkey(s) for s in sc["input"]]
        for key, asm in out.items():
            for s in asm.scaffolds:
                rows = [prow(x) for x in s.rows]
                if sc.get("giant"):
                    rows = ungiant(rows)
                    if rows is None:
                        t["status"] = "exc:OffGrid"
                        t["msg"] = "a row of the giant run does not lie on the stretched grid: " + str(s)[:100]
                        rows = []
                t["out"].append({"asm": key or "", "asm_lc": (key or "").lower(), "name": s.name, "rank": s.rank or 0, "tag": s.tag or "", "hap": s.haplotype or "",
                                 "orig": s.original_name or "", "rows": rows})
        t["stats"] = {"cuts": st.cuts, "breaks": st.breaks, "joins": st.joins}
    if sc.get("giant"):
        t["style"] = "giant"        # (the pipeline model is not compared: its 1-texel rounding does not stretch)
        t["cls"] = sc["cls"] + "/giant"
    return t


def agp_rows(path):
    """independent reader of an AGP file the tool wrote: list of scaffolds [name, rows] in the Rows.tla record shape (object coordinates are C06's business)"""
    scs = []
    for line in open(path):
        if not line.strip() or line.startswith("#"):
            continue
        f = line.rstrip("\n").split("\t")
        # a new object starts where the name changes - or where the part number starts again at 1 (two scaffolds of one name in one file)
        if not scs or scs[-1]["name"] != f[0] or f[3] == "1":
            scs.append({"name": f[0], "rows": []})
        if f[4] in ("U", "N"):
            scs[-1]["rows"].append({"k": "G", "name": f[6], "s": 1, "e": int(f[5]), "st": 0})
        else:
            scs[-1]["rows"].append({"k": "F", "name": f[5], "s": int(f[6]), "e": int(f[7]), "st": {"+": 1, "-": -1}.get(f[8], 0)})
    return scs


def file_key(fname, root="x", ver="1"):
    """assembly a written file stands for, from the documented file names: <root>.<ver>.primary.curated / <root>.<hap>.<ver>.primary.curated ->
    "" / hap; .additional_haplotigs(.curated) -> haplotig; any other assembly is written as <root>.<ver>.<key>s (haplotigs, contaminants,
    falseduplicates, hap1s, all_haplotigs) -> key"""
    parts = fname.split(".")
    stem = [x for x in parts[1:-1] if x != "curated"]
    if len(stem) == 3 and stem[1] == ver and stem[2] == "primary":
        return stem[0].lower()
    word = stem[-1] if stem else ""
    if word == "primary":
        return ""
    if word == "additional_haplotigs":
        return "haplotig"
    # every other assembly is written as <root>.<ver>.<key, lower case>s
    return word[:-1] if word.endswith("s") else word


def _lib_asms(sc):
    from tola.assembly.build_assembly import BuildAssembly
    from tola.assembly.gap import Gap
    ia, p = build_objects(sc)
    ba = BuildAssembly("o", default_gap=Gap(200, "scaffold"), autosome_prefix=sc.get("prefix") or "SUPER_")
    ba.remap_to_input_assembly(p, ia)
    return [{"key": k or "", "curated": 1 if a.curated else 0, "chr": 1 if any(s.rank in (1, 2) for s in a.scaffolds) else 0}
            for k, a in ba.assemblies_with_scaffolds_fused().items()]


def run_scenario_cli(sc):
    """the same scenario through the pretext-to-asm command line: input assembly and Pretext map written as AGP files, every output AGP read back;
    the trace has the shape of run_scenario's (style 'cli...' marks it), plus the numbers of the info yaml and of the 'Curation made' log line"""
    import re
    import shutil
    import tempfile
    from pathlib import Path
    from harness import cli_engine
    t = {"tid": sc["tid"], "cls": "route-cli/" + sc["cls"] + ("/python-O" if sc.get("optimize") else ""), "tn": sc["tn"], "td": sc["td"], "naming": sc.get("naming", ""), "valid": sc["valid"],
         "input": sc["input"], "map": sc["map"], "haps": sc.get("haps", ["" for _ in sc["input"]]), "style": sc.get("style", "plain"), "route": "cli", "status": "ok", "out": [],
         "stats": {"cuts": 0, "breaks": 0, "joins": 0}, "msg": ""}
    d = Path(tempfile.mkdtemp(prefix="clis-", dir=sc.get("root") or None))
    try:
        with open(d / "in.agp", "w") as fh:
            for s in sc["input"]:
                p = 0
                for i, r in enumerate(s["rows"], 1):
                    n = r["e"] - r["s"] + 1
                    head = [s["name"], str(p + 1), str(p + n), str(i)]
                    p += n
                    if r["k"] == "G":
                        fh.write("\t".join(head + ["U", str(n), r["name"], "yes", "proximity_ligation"]) + "\n")
                    else:
                        fh.write("\t".join(head + ["W", r["name"], str(r["s"]), str(r["e"]), {1: "+", -1: "-"}.get(r["st"], "?")]) + "\n")
        with open(d / "p.agp", "w") as fh:
            fh.write("##agp-version\t2.1\n# DESCRIPTION: Generated by PretextView Version 0.2.5\n")
            fh.write(f"# HiC MAP RESOLUTION: {sc['tn'] / sc['td']:.6f} bp/texel\n")
            for g, grp in enumerate(sc["map"], 1):
                p = 0
                part = 0
                for pc in grp["pieces"]:
                    if part:
                        part += 1
                        fh.write("\t".join([f"Scaffold_{g}", str(p + 1), str(p + 100), str(part), "U", "100", "scaffold", "yes", "proximity_ligation"]) + "\n")
                        p += 100
                    part += 1
                    n = pc["b"] - pc["a"] + 1
                    tags = (["Painted"] if grp["painted"] else []) + list(pc.get("tags", ()))
                    fh.write("\t".join([f"Scaffold_{g}", str(p + 1), str(p + n), str(part), "W", pc["src"], str(pc["a"]), str(pc["b"]),
                                         {1: "+", -1: "-"}.get(pc["st"], "?")] + tags) + "\t\n")
                    p += n
        out = d / "out"
        out.mkdir()
        args = ["-a", d / "in.agp", "-p", d / "p.agp", "-o", out / "x.1.agp", "--no-write-log"]
        if sc.get("prefix"):
            args += ["--autosome-prefix", sc["prefix"]]
        if sc.get("optimize"):
            # a fresh interpreter with PYTHONOPTIMIZE=1 (assert statements compiled away): what the tool guarantees must not rest on asserts
            r = C.guarded(lambda _: cli_engine.run_subproc(args, env={"PYTHONOPTIMIZE": "1"}), None, 150.0)
        else:
            r = C.guarded(lambda _: cli_engine.run_inproc(args), None, 30.0)
        if r[0] == "hang":
            t["status"] = "hang"
        elif r[0] == "exc":
            t["status"] = "exc:" + r[1]
            t["msg"] = r[2][:160]
        else:
            rc, text, exc = r[1]
            if rc != 0:
                t["status"] = f"exc:exit{rc}" + (":" + exc if exc else "")
                t["msg"] = text[-160:]
            hap_written = 0
            for f in sorted(out.glob("*.agp")):
                key = file_key(f.name)
                scs = agp_rows(f)
                if sc.get("keep_agp"):
                    t.setdefault("agp_files", []).append({"file": f.name, "lines": [ln.split("\t") for ln in f.read_text().splitlines()]})
                if key == "haplotig":
                    hap_written += len(scs)
                for s in scs:
                    t["out"].append({"asm": key, "asm_lc": key, "file": f.name, "name": s["name"], "rank": 0, "tag": "", "hap": "", "orig": "", "rows": s["rows"]})
            m = re.search(r"Curation made (\d+) cuts? in (?:a contig|contigs), (\d+) breaks? at (?:a gap|gaps) and (\d+) joins?", text)
            t["log_stats"] = {"cuts": int(m.group(1)), "breaks": int(m.group(2)), "joins": int(m.group(3))} if m else {"cuts": -1, "breaks": -1, "joins": -1}
            if m:
                t["stats"] = dict(t["log_stats"])
            yml = out / "x.1.info.yaml"
            ytxt = yml.read_text() if yml.exists() else ""

            def top(key):
                mm = re.search(rf"^{key}:\s*(\d+)\s*$", ytxt, flags=re.M)
                return int(mm.group(1)) if mm else -1
            t["yaml"] = {"breaks": top("manual_breaks"), "joins": top("manual_joins"), "haplotig_removals": top("manual_haplotig_removals"), "present": 1 if ytxt else 0}
            t["pas"] = [{"asm_lc": "" if k == "Primary" else k.lower(), "breaks": int(b), "joins": int(j)}
                        for k, b, j in re.findall(r"^  (\S+):\n    manual_breaks: (\d+)\n    manual_joins: (\d+)$", ytxt, flags=re.M)]
            t["inkeys"] = [inkey(s) for s in sc["input"]]
            t["haplotig_scaffolds_written"] = hap_written
            t["files"] = sorted(f.name for f in out.iterdir())
            # the assemblies the library returns for the same scenario (OutputFiles.tla names the files they should be written to)
            lib = C.guarded(lambda _: _lib_asms(sc), None, 20.0)
            if lib[0] == "ok":
                t["lib_asms"] = lib[1]
    finally:
        shutil.rmtree(d, ignore_errors=True)
    return t


def run_specimen(sc):
    """one of the 12 real specimens of the repository's test data: real input TPF + real Pretext AGP through the real parsers and BuildAssembly"""
    import glob
    import math
    from tola.assembly.build_assembly import BuildAssembly
    from tola.assembly.gap import Gap
    from tola.assembly.indexed_assembly import IndexedAssembly
    from tola.assembly.parser import parse_agp, parse_tpf
    d = str(C.REPO / "tests" / "data" / sc["specimen"])
    t = {"tid": sc["tid"], "cls": "specimen", "tn": 1, "td": 1, "naming": "free", "valid": 0, "input": [], "map": [], "haps": [], "style": "specimen",
         "status": "ok", "out": [], "stats": {"cuts": 0, "breaks": 0, "joins": 0}, "msg": sc["specimen"]}

    def go(_):
        asm = parse_tpf(open(glob.glob(d + "/*-input*.tpf")[0]), "in")
        ptx = parse_agp(open(glob.glob(d + "/*-pretext*.agp")[0]), "ptx")
        ba = BuildAssembly("o", default_gap=Gap(200, "scaffold"))
        ba.remap_to_input_assembly(ptx, IndexedAssembly.new_from_assembly(asm))
        return asm, ptx, ba.assemblies_with_scaffolds_fused(), ba.assembly_stats
    r = C.guarded(go, None, 300.0)
    if r[0] != "ok":
        t["status"] = "hang" if r[0] == "hang" else "exc:" + r[1]
        return t
    asm, ptx, out, st = r[1]
    t["tn"] = int(math.floor(ptx.bp_per_texel))
    t["input"] = [{"name": s.name, "rows": [prow(x) for x in s.rows]} for s in asm.scaffolds]
    t["haps"] = ["" for _ in t["input"]]
    for key, a in out.items():
        for s in a.scaffolds:
            t["out"].append({"asm": key or "", "asm_lc": (key or "").lower(), "name": s.name, "rank": s.rank or 0, "tag": s.tag or "", "hap": s.haplotype or "",
                             "orig": s.original_name or "", "rows": [prow(x) for x in s.rows]})
    t["stats"] = {"cuts": st.cuts, "breaks": st.breaks, "joins": st.joins}
    return t


def pv_cfg(tn, td, mode, maxedits, nrandom, maxperturb=0, maxpieces=4, emit=True, inv=True, style="plain"):
    t = (f'SPECIFICATION Spec\nCONSTANTS TN = {tn} TD = {td} MinTex = 2 MaxEdits = {maxedits} MaxPieces = {maxpieces} NRandom = {nrandom} '
         f'Mode = "{mode}" MaxPerturb = {maxperturb} NameStyle = "{style}"\nVIEW View\nCHECK_DEADLOCK FALSE\n')
    if inv:
        t += "INVARIANT TilesOK\n"
    if emit:
        t += "CONSTRAINT Emit\n"
    return t


def export(run, name, tn, td, mode, maxedits, nrandom, maxperturb=0, simulate=None, cap=None, rng=None, keep=None, workers=8, style="plain"):
    """Scenarios = the distinct maps TLC reaches (VIEW hides the edit counter).  Returns (scenarios, tlc result)."""
    args = ["-seed", str(C.seed() + 1)]
    if simulate:
        args += ["-depth", str(maxedits + 1)]
    r = C.tlc("PretextView", pv_cfg(tn, td, mode, maxedits, nrandom, maxperturb, style=style), run.dir, name=name, workers=workers, timeout=2400, args=args,
              simulate=simulate, heap="6g")
    if simulate is None:
        C.tlc_ok(r, "scenario export " + name)
    elif "Error:" in r["out"] and "violated" in r["out"]:
        raise C.Machinery("simulation export failed:\n" + r["out"][-1500:])
    seen = set()
    objs = []
    for o in C.emitted(r["out"]):
        k = json.dumps([o["naming"], o["input"], o["map"]], sort_keys=True)
        if k in seen:
            continue
        seen.add(k)
        if keep and not keep(o):
            continue
        if o.pop("primary_ok", 1) == 0:
            continue            # a Primary tag used inconsistently (PretextView!PrimaryOK): outside the tagged maps the properties speak about
        objs.append(o)
    if simulate:
        # TLC's simulation mode reports no state counts: the distinct maps it printed / the states it printed are what was explored
        r["distinct"] = max(r.get("distinct") or 0, len(seen))
        r["generated"] = max(r.get("generated") or 0, len(C.emitted(r["out"])))
    if cap and len(objs) > cap:
        # maps in Primary mode are few among the tagged ones: up to a third of the sample is reserved for them
        prim = [o for o in objs if any("Primary" in p.get("tags", ()) for g in o["map"] for p in g["pieces"])]
        rest = [o for o in objs if not any("Primary" in p.get("tags", ()) for g in o["map"] for p in g["pieces"])]
        np_ = min(len(prim), cap // 3)
        objs = rng.sample(prim, np_) + rng.sample(rest, min(len(rest), cap - np_))
    return objs, r


def model_check(run, tn, td, mode, maxedits, nrandom, maxperturb, name):
    """design level: the implementation-shaped pipeline model satisfies the property predicates on every map TLC reaches"""
    cfg = (f'SPECIFICATION Spec\nCONSTANTS TN = {tn} TD = {td} MinTex = 2 MaxEdits = {maxedits} MaxPieces = 4 NRandom = {nrandom} '
           f'Mode = "{mode}" MaxPerturb = {maxperturb} NameStyle = "plain"\nVIEW View\nCHECK_DEADLOCK FALSE\nINVARIANT ModelSatisfiesProperties\n')
    r = C.tlc("RemapMC", cfg, run.dir, name=name, timeout=2400, args=["-seed", str(C.seed() + 1)], heap="6g")
    return {"config": name, "texel": f"{tn}/{td}", "mode": mode, "max_edits": maxedits, "states": r["distinct"], "generated": r["generated"],
            "design_holds": bool(r["completed"] and not r["violated"]), "violated": r["violated"], "wall_s": r["wall_s"],
            "error": "" if r["completed"] or r["violated"] else r["out"][-600:]}


def judge(run, traces, props, label="RemapTrace"):
    consts = "Props = {" + ", ".join(f'"{p}"' for p in props) + "}"
    # (very large trace sets - the thorough tier - are judged by eight JVMs at a time: this process already holds several GB of traces)
    return C.judge("RemapTrace", traces, run.dir, consts=consts, shard=max(100, len(traces) // 16 + 1), spec="TraceSpec", heap="3g", label=label,
                   jobs=8 if len(traces) > 120000 else C.NCPU)
