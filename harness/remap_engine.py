"""Remap engine shared by C01, C02, C07, C08, C11 (and C09/C10 with tagged maps): scenarios are exported by TLC from
PretextView.tla, executed by the real BuildAssembly, and the recorded outputs judged by TLC (RemapTrace.tla)."""
import json
import random

from harness import common as C

TEXELS = {"quick": [(2, 1), (3, 2), (5, 1)], "thorough": [(1, 1), (3, 2), (2, 1), (5, 2), (3, 1), (5, 1)]}


def mkrow(r):
    from tola.assembly.fragment import Fragment
    from tola.assembly.gap import Gap
    if r["k"] == "G":
        return Gap(r["e"] - r["s"] + 1, r["name"])
    return Fragment(r["name"], r["s"], r["e"], r["st"], tuple(r.get("tags", ())))


def prow(r):
    from tola.assembly.gap import Gap
    if isinstance(r, Gap):
        return {"k": "G", "name": r.gap_type, "s": 1, "e": r.length, "st": 0}
    return {"k": "F", "name": r.name, "s": r.start, "e": r.end, "st": r.strand}


def build_objects(sc):
    from tola.assembly.assembly import Assembly
    from tola.assembly.fragment import Fragment
    from tola.assembly.gap import Gap
    from tola.assembly.indexed_assembly import IndexedAssembly
    from tola.assembly.scaffold import Scaffold
    scs = [Scaffold(s["name"], [mkrow(r) for r in s["rows"]]) for s in sc["input"]]
    ia = IndexedAssembly("in", scaffolds=scs)
    pscs = []
    for n, g in enumerate(sc["map"], 1):
        rows = []
        for pc in g["pieces"]:
            if rows:
                rows.append(Gap(100, "scaffold"))
            tags = (("Painted",) if g["painted"] else ()) + tuple(pc.get("tags", ()))
            rows.append(Fragment(pc["src"], pc["a"], pc["b"], pc["st"], tags))
        pscs.append(Scaffold(f"Scaffold_{n}", rows))
    p = Assembly("pretext", scaffolds=pscs, bp_per_texel=sc["tn"] / sc["td"])
    return ia, p


def run_scenario(sc):
    from tola.assembly.build_assembly import BuildAssembly
    from tola.assembly.gap import Gap
    t = {"tid": sc["tid"], "cls": sc["cls"], "tn": sc["tn"], "td": sc["td"], "naming": sc.get("naming", ""), "valid": sc["valid"],
         "input": sc["input"], "map": sc["map"], "haps": sc.get("haps", ["" for _ in sc["input"]]), "style": sc.get("style", "plain"), "status": "ok", "out": [], "stats": {"cuts": 0, "breaks": 0, "joins": 0}, "msg": ""}

    def go(_):
        ia, p = build_objects(sc)
        ba = BuildAssembly("o", default_gap=Gap(200, "scaffold"), autosome_prefix=sc.get("prefix") or "SUPER_")
        ba.remap_to_input_assembly(p, ia)
        out = ba.assemblies_with_scaffolds_fused()
        csv = []
        if "prefix" in sc:
            for key, asm in out.items():
                txt = ba.assembly_stats.chromosome_name_csv(asm) if asm.curated else None
                if txt:
                    csv.append({"asm": key or "", "lines": [ln.split(",") for ln in txt.splitlines()]})
        return out, ba.assembly_stats, csv
    r = C.guarded(go, None, 20.0)
    if r[0] == "hang":
        t["status"] = "hang"
    elif r[0] == "exc":
        t["status"] = "exc:" + r[1]
        t["msg"] = r[2][:160]
    else:
        out, st, csv = r[1]
        if "prefix" in sc:
            t.update(prefix=sc["prefix"], nhaps=sc["nhaps"], csv=csv)
        for key, asm in out.items():
            for s in asm.scaffolds:
                t["out"].append({"asm": key or "", "asm_lc": (key or "").lower(), "name": s.name, "rank": s.rank or 0, "tag": s.tag or "", "hap": s.haplotype or "",
                                 "orig": s.original_name or "", "rows": [prow(x) for x in s.rows]})
        t["stats"] = {"cuts": st.cuts, "breaks": st.breaks, "joins": st.joins}
    return t


def run_specimen(sc):
    """one of the 12 real specimens of the repository's test data: real input TPF + real Pretext AGP through the real parsers and BuildAssembly"""
    import glob
    import math
    from tola.assembly.build_assembly import BuildAssembly
    from tola.assembly.gap import Gap
    from tola.assembly.indexed_assembly import IndexedAssembly
    from tola.assembly.parser import parse_agp, parse_tpf
    d = str(C.REPO / "tests" / "data" / sc["specimen"])
    t = {"tid": sc["tid"], "cls": "specimen", "tn": 1, "td": 1, "naming": "free", "valid": 0, "input": [], "map": [], "haps": [], "style": "specimen",
         "status": "ok", "out": [], "stats": {"cuts": 0, "breaks": 0, "joins": 0}, "msg": sc["specimen"]}

    def go(_):
        asm = parse_tpf(open(glob.glob(d + "/*-input*.tpf")[0]), "in")
        ptx = parse_agp(open(glob.glob(d + "/*-pretext*.agp")[0]), "ptx")
        ba = BuildAssembly("o", default_gap=Gap(200, "scaffold"))
        ba.remap_to_input_assembly(ptx, IndexedAssembly.new_from_assembly(asm))
        return asm, ptx, ba.assemblies_with_scaffolds_fused(), ba.assembly_stats
    r = C.guarded(go, None, 300.0)
    if r[0] != "ok":
        t["status"] = "hang" if r[0] == "hang" else "exc:" + r[1]
        return t
    asm, ptx, out, st = r[1]
    t["tn"] = int(math.floor(ptx.bp_per_texel))
    t["input"] = [{"name": s.name, "rows": [prow(x) for x in s.rows]} for s in asm.scaffolds]
    t["haps"] = ["" for _ in t["input"]]
    for key, a in out.items():
        for s in a.scaffolds:
            t["out"].append({"asm": key or "", "asm_lc": (key or "").lower(), "name": s.name, "rank": s.rank or 0, "tag": s.tag or "", "hap": s.haplotype or "",
                             "orig": s.original_name or "", "rows": [prow(x) for x in s.rows]})
    t["stats"] = {"cuts": st.cuts, "breaks": st.breaks, "joins": st.joins}
    return t


def pv_cfg(tn, td, mode, maxedits, nrandom, maxperturb=0, maxpieces=4, emit=True, inv=True, style="plain"):
    t = (f'SPECIFICATION Spec\nCONSTANTS TN = {tn} TD = {td} MinTex = 2 MaxEdits = {maxedits} MaxPieces = {maxpieces} NRandom = {nrandom} '
         f'Mode = "{mode}" MaxPerturb = {maxperturb} NameStyle = "{style}"\nVIEW View\nCHECK_DEADLOCK FALSE\n')
    if inv:
        t += "INVARIANT TilesOK\n"
    if emit:
        t += "CONSTRAINT Emit\n"
    return t


def export(run, name, tn, td, mode, maxedits, nrandom, maxperturb=0, simulate=None, cap=None, rng=None, keep=None, workers=8, style="plain"):
    """Scenarios = the distinct maps TLC reaches (VIEW hides the edit counter).  Returns (scenarios, tlc result)."""
    args = ["-seed", str(C.seed() + 1)]
    if simulate:
        args += ["-depth", str(maxedits + 1)]
    r = C.tlc("PretextView", pv_cfg(tn, td, mode, maxedits, nrandom, maxperturb, style=style), run.dir, name=name, workers=workers, timeout=2400, args=args,
              simulate=simulate, heap="6g")
    if simulate is None:
        C.tlc_ok(r, "scenario export " + name)
    elif "Error:" in r["out"] and "violated" in r["out"]:
        raise C.Machinery("simulation export failed:\n" + r["out"][-1500:])
    seen = set()
    objs = []
    for o in C.emitted(r["out"]):
        k = json.dumps([o["naming"], o["input"], o["map"]], sort_keys=True)
        if k in seen:
            continue
        seen.add(k)
        if keep and not keep(o):
            continue
        objs.append(o)
    if cap and len(objs) > cap:
        objs = rng.sample(objs, cap)
    return objs, r


def model_check(run, tn, td, mode, maxedits, nrandom, maxperturb, name):
    """design level: the implementation-shaped pipeline model satisfies the property predicates on every map TLC reaches"""
    cfg = (f'SPECIFICATION Spec\nCONSTANTS TN = {tn} TD = {td} MinTex = 2 MaxEdits = {maxedits} MaxPieces = 4 NRandom = {nrandom} '
           f'Mode = "{mode}" MaxPerturb = {maxperturb} NameStyle = "plain"\nVIEW View\nCHECK_DEADLOCK FALSE\nINVARIANT ModelSatisfiesProperties\n')
    r = C.tlc("RemapMC", cfg, run.dir, name=name, timeout=2400, args=["-seed", str(C.seed() + 1)], heap="6g")
    return {"config": name, "texel": f"{tn}/{td}", "mode": mode, "max_edits": maxedits, "states": r["distinct"], "generated": r["generated"],
            "design_holds": bool(r["completed"] and not r["violated"]), "violated": r["violated"], "wall_s": r["wall_s"],
            "error": "" if r["completed"] or r["violated"] else r["out"][-600:]}


def judge(run, traces, props, label="RemapTrace"):
    consts = "Props = {" + ", ".join(f'"{p}"' for p in props) + "}"
    return C.judge("RemapTrace", traces, run.dir, consts=consts, shard=max(100, len(traces) // 16 + 1), spec="TraceSpec", heap="3g", label=label)
