"""AGP/TPF text engine for C05 (round trips) and C06 (coordinate-valid AGP).  Spec: AgpTpf.tla, AgpTpfScen.tla, AgpTpfTrace.tla."""
import io
import os
import random
import tempfile

from harness import common as C

BIGC = 1_000_000_000_000


def mk_asm(a, big=False):
    from tola.assembly.assembly import Assembly
    from tola.assembly.fragment import Fragment
    from tola.assembly.gap import Gap
    from tola.assembly.scaffold import Scaffold
    scs = []
    for s in a["scaffolds"]:
        rows = []
        for r in s["rows"]:
            if r["k"] == "G":
                rows.append(Gap(r["e"] - r["s"] + 1, r["name"]))
            else:
                rows.append(Fragment(r["name"], int(r["s"]), int(r["e"]), r["st"], tuple(r["tags"])))
        scs.append(Scaffold(s["name"], rows))
    return Assembly("t", header=list(a["header"]), scaffolds=scs)


def proj_asm(asm, big=False):
    from tola.assembly.gap import Gap
    out = {"header": list(asm.header), "scaffolds": []}
    for s in asm.scaffolds:
        rows = []
        for r in s.rows:
            if isinstance(r, Gap):
                rows.append({"k": "G", "name": r.gap_type, "s": 1, "e": r.length, "st": 0, "tags": []})
            else:
                rows.append({"k": "F", "name": r.name, "s": str(r.start) if big else r.start, "e": str(r.end) if big else r.end, "st": r.strand,
                             "tags": list(r.tags)})
        out["scaffolds"].append({"name": s.name, "rows": rows})
    return out


def matrix(text):
    lines = text.split("\n")
    assert lines[-1] == ""
    m = [ln.split("\t") for ln in lines[:-1]]
    assert "".join("\t".join(f) + "\n" for f in m) == text
    return m


def fmt(asm, which):
    from tola.assembly.format import format_agp, format_tpf
    buf = io.StringIO()
    (format_agp if which == "agp" else format_tpf)(asm, buf)
    return buf.getvalue()


def parse(text, which):
    from tola.assembly.parser import parse_agp, parse_tpf
    return (parse_agp if which == "agp" else parse_tpf)(io.StringIO(text), "t")


def run_rt(sc):
    big = sc.get("big", 0) == 1
    a = sc["asm"]
    t = {"tid": sc["tid"], "kind": "rt", "big": 1 if big else 0, "asm": a, "agp": [], "agp_parsed": {}, "agp_exc": "", "agp_reformat": [],
         "tpf": [], "tpf_parsed": {}, "tpf_exc": "", "tpf_reformat": [], "cli_a2t2a": {}, "cli_exc": ""}
    real = mk_asm(a, big)
    for which in ("agp", "tpf"):
        def go(_):
            text = fmt(real, which)
            back = parse(text, which)
            return text, proj_asm(back, big), fmt(back, which)
        r = C.guarded(go, None, 10.0)
        if r[0] == "ok":
            t[which] = matrix(r[1][0])
            t[which + "_parsed"] = r[1][1]
            t[which + "_reformat"] = matrix(r[1][2])
        else:
            t[which + "_exc"] = r[1] if r[0] == "exc" else "HANG"
            try:
                t[which] = matrix(fmt(real, which))
            except Exception:  # noqa: BLE001
                pass
    # AGP -> TPF -> AGP through the real asm-format CLI
    def cli(_):
        from click.testing import CliRunner
        from tola.assembly.scripts import asm_format
        d = tempfile.mkdtemp(prefix="agp-", dir=os.environ.get("VERIF_AGP_ROOT"))
        p1, p2, p3 = os.path.join(d, "in.agp"), os.path.join(d, "mid.tpf"), os.path.join(d, "back.agp")
        open(p1, "w").write(fmt(real, "agp"))
        r1 = CliRunner().invoke(asm_format.cli, [p1, "-o", p2])
        if r1.exit_code != 0:
            raise RuntimeError("asm-format agp->tpf exit %s" % r1.exit_code)
        r2 = CliRunner().invoke(asm_format.cli, [p2, "-o", p3])
        if r2.exit_code != 0:
            raise RuntimeError("asm-format tpf->agp exit %s" % r2.exit_code)
        back = parse(open(p3).read(), "agp")
        for p in (p1, p2, p3):
            os.unlink(p)
        os.rmdir(d)
        return proj_asm(back, big)
    if sc.get("cli"):
        r = C.guarded(cli, None, 20.0)
        if r[0] == "ok":
            t["cli_a2t2a"] = r[1]
        else:
            t["cli_exc"] = r[1] if r[0] == "exc" else "HANG"
    else:
        # same conversion through the library calls the CLI makes
        def lib(_):
            mid = parse(fmt(real, "agp"), "agp")
            return proj_asm(parse(fmt(parse(fmt(mid, "tpf"), "tpf"), "agp"), "agp"), big)
        r = C.guarded(lib, None, 10.0)
        if r[0] == "ok":
            t["cli_a2t2a"] = r[1]
        else:
            t["cli_exc"] = r[1] if r[0] == "exc" else "HANG"
    return t


def run_many(sc):
    """One small assembly repeated K times (scaffold names suffixed ~k) so that the texts run to more than 100 000 lines, written and read back
    in one go by the real code.  The texts and the parsed-back assembly are then cut into the K periods by scaffold name; period 1 and every
    period whose lines or rows differ from period 1's (suffix apart) become round-trip traces of the ordinary kind - TLC judges those."""
    a, K, tid0 = sc["asm"], sc["K"], sc["tid"]

    def sfx(name, k):
        return f"{name}~{k}"
    bigasm = {"header": list(a["header"]), "scaffolds": [{"name": sfx(s["name"], k), "rows": s["rows"]} for k in range(1, K + 1) for s in a["scaffolds"]]}
    real = mk_asm(bigasm)
    res = {}
    for which in ("agp", "tpf"):
        def go(_):
            text = fmt(real, which)
            back = parse(text, which)
            return text, proj_asm(back), fmt(back, which)
        res[which] = C.guarded(go, None, 300.0)
    # AGP -> TPF -> AGP through the library calls the asm-format CLI makes
    conv = C.guarded(lambda _: proj_asm(parse(fmt(parse(fmt(parse(fmt(real, "agp"), "agp"), "tpf"), "tpf"), "agp"), "agp")), None, 300.0)
    cscs = {}

    def period_of(name):
        return int(name.rsplit("~", 1)[1]) if "~" in name and name.rsplit("~", 1)[1].isdigit() else 0

    def split_lines(m, which):
        per = {}
        cur = 0
        for f in m:
            if f and f[0].startswith("#"):
                per.setdefault(-1, []).append(f)
                continue
            if which == "agp":
                cur = period_of(f[0])
            elif f[0] != "GAP" and len(f) > 2:
                cur = period_of(f[2])
            per.setdefault(cur, []).append(f)
        return per

    def unsfx(k, obj):
        return json.loads(json.dumps(obj).replace(f"~{k}\"", "~1\"").replace(f"~{k}\\t", "~1\\t"))
    import json
    small = lambda k: {"header": list(a["header"]), "scaffolds": [{"name": sfx(s0["name"], k), "rows": s0["rows"]} for s0 in a["scaffolds"]]}
    parts = {}
    for which in ("agp", "tpf"):
        r = res[which]
        if r[0] != "ok":
            parts[which] = None
            continue
        text, back, again = r[1]
        lines, relines = split_lines(matrix(text), which), split_lines(matrix(again), which)
        scs = {}
        for s0 in back["scaffolds"]:
            scs.setdefault(period_of(s0["name"]), []).append(s0)
        parts[which] = (lines, scs, relines, back["header"])
    if conv[0] == "ok":
        for s0 in conv[1]["scaffolds"]:
            cscs.setdefault(period_of(s0["name"]), []).append(s0)
    out = []
    periods = [1]
    for k in range(2, K + 1):
        dev = False
        for which in ("agp", "tpf"):
            if parts[which] is None:
                continue
            lines, scs, relines, _ = parts[which]
            if unsfx(k, [lines.get(k, []), scs.get(k, []), relines.get(k, [])]) != [lines.get(1, []), scs.get(1, []), relines.get(1, [])]:
                dev = True
        if conv[0] == "ok" and unsfx(k, cscs.get(k, [])) != cscs.get(1, []):
            dev = True
        if dev and len(periods) < 6:
            periods.append(k)
    stray = 0
    for which in ("agp", "tpf"):
        if parts[which] is not None:
            stray += len(parts[which][0].get(0, [])) + len(parts[which][1].get(0, []))
    for n, k in enumerate(periods):
        t = {"tid": tid0 + n, "kind": "rt", "big": 0, "asm": small(k), "agp": [], "agp_parsed": {}, "agp_exc": "", "agp_reformat": [],
             "tpf": [], "tpf_parsed": {}, "tpf_exc": "", "tpf_reformat": [], "cli_a2t2a": {}, "cli_exc": "", "cls": f"period-{k}-of-{K}", "periods": K,
             "stray": stray}
        for which in ("agp", "tpf"):
            if parts[which] is None:
                t[which + "_exc"] = res[which][1] if res[which][0] == "exc" else "HANG"
                continue
            lines, scs, relines, hdr = parts[which]
            strayl = lines.get(0, []) if n == 0 else []          # lines / scaffolds that belong to no period are shown to TLC with period 1
            t[which] = lines.get(-1, []) + lines.get(k, []) + strayl
            t[which + "_parsed"] = {"header": hdr, "scaffolds": scs.get(k, []) + (scs.get(0, []) if n == 0 else [])}
            t[which + "_reformat"] = relines.get(-1, []) + relines.get(k, []) + (relines.get(0, []) if n == 0 else [])
        if conv[0] == "ok":
            t["cli_a2t2a"] = {"header": conv[1]["header"], "scaffolds": cscs.get(k, []) + (cscs.get(0, []) if n == 0 else [])}
        else:
            t["cli_exc"] = conv[1] if conv[0] == "exc" else "HANG"
        out.append(t)
    return out


def run_afcli(sc):
    """one scenario of AsmFormatCli.tla through the real asm-format command line (files or STDIN, -i, -o, -f, -n)"""
    import shutil
    from click.testing import CliRunner
    from tola.assembly.assembly import Assembly
    from tola.assembly.fragment import Fragment
    from tola.assembly.gap import Gap
    from tola.assembly.scaffold import Scaffold
    from tola.assembly.scripts import asm_format
    s = sc["sc"]
    t = {"tid": sc["tid"], "kind": "afcli", "sc": s, "exit": 0, "exc": "", "where": "", "lines": [], "reprs": [], "nonempty": 0}
    d = tempfile.mkdtemp(prefix="af-", dir=os.environ.get("VERIF_AGP_ROOT"))
    try:
        texts = [fmt(mk_asm(a), "agp" if f == "AGP" else "tpf") for a, f in zip(sc["asms"], sc["infmts"])]
        args = []
        stdin = None
        if s["files"]:
            for k, (f, text) in enumerate(zip(s["files"], texts), 1):
                p = os.path.join(d, f"in{k}.{f['ext']}")
                open(p, "w").write(text)
                args.append(p)
        else:
            stdin = texts[0]
        if s["i"]:
            args += ["-i", s["i"]]
        outp = os.path.join(d, "out." + s["o"]) if s["o"] else None
        if outp:
            args += ["-o", outp]
        if s["f"]:
            args += ["-f", s["f"]]
        if s["n"]:
            args += ["-n", s["n"]]
        try:
            res = CliRunner(mix_stderr=False).invoke(asm_format.cli, args, input=stdin)
        except TypeError:
            res = CliRunner().invoke(asm_format.cli, args, input=stdin)
        t["exit"] = res.exit_code
        if res.exception is not None and not isinstance(res.exception, SystemExit):
            t["exc"] = type(res.exception).__name__
        ftxt = open(outp).read() if outp and os.path.exists(outp) else ""
        stdout = res.stdout if hasattr(res, "stdout") else res.output
        t["where"] = "file" if ftxt and not stdout else "stdout" if stdout and not ftxt else "both" if ftxt else "none"
        text = ftxt or stdout
        t["nonempty"] = 1 if text.strip() else 0
        if t["exit"] == 0 and not t["exc"]:
            if text.startswith("Assembly("):
                parts = ["Assembly(" + x for x in text.split("Assembly(")[1:]]
                for part in parts:
                    obj = eval(part, {"Assembly": Assembly, "Scaffold": Scaffold, "Fragment": Fragment, "Gap": Gap})  # noqa: S307 - the tool's own REPR output
                    pr = proj_asm(obj)
                    t["reprs"].append({"name": obj.name, "header": pr["header"], "scaffolds": pr["scaffolds"]})
            elif not text.startswith("Assembly:") and text.endswith("\n"):
                t["lines"] = matrix(text)
    except Exception as e:  # noqa: BLE001
        t["exc"] = t["exc"] or ("harness:" + type(e).__name__)
    finally:
        shutil.rmtree(d, ignore_errors=True)
    return t


CORRUPTIONS = [
    ("agp", "drop-last-column", lambda f: f[:-1] if len(f) == 9 else f[:8]),
    ("agp", "drop-column-2", lambda f: f[:1] + f[2:]),
    ("agp", "bad-strand", lambda f: f[:8] + ["x"] + f[9:] if f[4] == "W" else f[:5] + ["x"] + f[6:]),
    ("agp", "non-numeric-start", lambda f: f[:6] + ["1x"] + f[7:] if f[4] == "W" else f[:5] + ["len"] + f[6:]),
    ("agp", "reversed-coordinates", lambda f: f[:6] + [f[7], f[6]] + f[8:] if f[4] == "W" and f[6] != f[7] else f[:5] + ["-"] + f[6:]),
    ("agp", "only-two-columns", lambda f: f[:2]),
    # legal but unusual lines: the other sequence component types of the AGP format (A D F G O P) and gap lines of type N
    ("agp", "component-type-F", lambda f: f[:4] + ["F"] + f[5:] if f[4] == "W" else f[:4] + ["N"] + f[5:]),
    ("agp", "component-type-A", lambda f: f[:4] + ["A"] + f[5:] if f[4] == "W" else f),
    ("agp", "component-type-P", lambda f: f[:4] + ["P"] + f[5:] if f[4] == "W" else f),
    ("agp", "component-type-O", lambda f: f[:4] + ["O"] + f[5:] if f[4] == "W" else f),
    ("agp", "component-type-D", lambda f: f[:4] + ["D"] + f[5:] if f[4] == "W" else f),
    ("agp", "component-type-G", lambda f: f[:4] + ["G"] + f[5:] if f[4] == "W" else f),
    ("tpf", "drop-last-column", lambda f: f[:-1]),
    ("tpf", "extra-column", lambda f: f + ["x"] if f[0] != "GAP" else f[:1]),
    ("tpf", "bad-strand", lambda f: f[:3] + ["SIDEWAYS"] if f[0] != "GAP" else f[:2] + ["n"]),
    ("tpf", "bad-name-format", lambda f: [f[0], f[1].replace(":", ";")] + f[2:] if f[0] != "GAP" else ["GAP", f[1]]),
    ("tpf", "reversed-coordinates", lambda f: [f[0], f[1].rsplit(":", 1)[0] + ":9-2"] + f[2:] if f[0] != "GAP" else f[:2] + ["x1"]),
    ("tpf", "gap-first", None),
]


def corrupt_traces(tid0):
    base = {"header": ["h"], "scaffolds": [
        {"name": "s1", "rows": [{"k": "F", "name": "a", "s": 1, "e": 9, "st": 1, "tags": []}, {"k": "G", "name": "scaffold", "s": 1, "e": 200, "st": 0, "tags": []},
                                {"k": "F", "name": "b:2", "s": 3, "e": 10, "st": -1, "tags": []}]},
        {"name": "s2", "rows": [{"k": "F", "name": "c", "s": 5, "e": 5, "st": 1, "tags": []}]}]}
    real = mk_asm(base)
    out = []
    tid = tid0
    for which, what, fn in CORRUPTIONS:
        m = matrix(fmt(real, which))
        body = [i for i, f in enumerate(m) if not f[0].startswith("#")]
        targets = body if fn else [0]
        for li in targets:
            mm = [list(f) for f in m]
            if fn:
                mm[li] = fn(mm[li])
            else:
                mm = [["GAP", "TYPE-2", "200"]] + [f for f in mm if not f[0].startswith("#")]
            text = "".join("\t".join(f) + "\n" for f in mm)
            nlines = sum(1 for f in mm if not f[0].startswith("#") and "".join(f).strip())
            r = C.guarded(lambda _: parse(text, which), None, 5.0)
            t = {"tid": tid, "kind": "corrupt", "fmt": which, "what": what, "line": li, "lines": mm, "nlines": nlines, "nrows": 0, "exc": ""}
            if r[0] == "ok":
                t["nrows"] = sum(len(s.rows) for s in r[1].scaffolds)
            else:
                t["exc"] = r[1] if r[0] == "exc" else "HANG"
            out.append(t)
            tid += 1
    return out


def agp_line_records(m):
    """project AGP field rows (header lines dropped) to records with integer columns; second value: lossless?"""
    recs = []
    ok = 1
    for f in m:
        if f and f[0].startswith("#"):
            continue
        r = {"obj": f[0] if f else "", "beg": 0, "end": 0, "part": 0, "typ": f[4] if len(f) > 4 else "", "glen": 0, "gtype": "", "linkage": "",
             "cs": 0, "ce": 0, "nf": len(f)}
        try:
            r["beg"], r["end"], r["part"] = int(f[1]), int(f[2]), int(f[3])
            if str(r["beg"]) != f[1] or str(r["end"]) != f[2] or str(r["part"]) != f[3]:
                ok = 0
            if r["typ"] in ("U", "N"):
                r["glen"], r["gtype"], r["linkage"] = int(f[5]), f[6], f[7]
                if str(r["glen"]) != f[5]:
                    ok = 0
            else:
                r["cs"], r["ce"] = int(f[6]), int(f[7])
                if str(r["cs"]) != f[6] or str(r["ce"]) != f[7] or len(f) < 9:
                    ok = 0
        except (ValueError, IndexError):
            ok = 0
        recs.append(r)
    return recs, ok


def agp_trace(tid, src, m, expect):
    recs, ok = agp_line_records(m)
    return {"tid": tid, "kind": "agp", "src": src, "lines": recs, "lossless": ok, "expect": expect}


def export_universe(run, nrandom):
    r = C.export("AgpTpfScen", f"INIT UInit\nNEXT UNext\nCHECK_DEADLOCK FALSE\nCONSTRAINT Emit\nINVARIANT FormatHasOneLinePerRow\nINVARIANT ModelAgpValid\n"
                 f"CONSTANTS NRandomAsm = {nrandom}\n", run.dir, name="scen-agp", timeout=1500)
    if not r["objs"]:
        raise C.Machinery("AGP universe export empty")
    return r


def big_family():
    out = []
    for st in (1, -1, 0):
        for tags in ([], ["Painted"]):
            out.append({"header": [], "scaffolds": [{"name": "big", "rows": [
                {"k": "F", "name": "a", "s": str(BIGC), "e": str(BIGC + 2**31), "st": st, "tags": tags},
                {"k": "G", "name": "scaffold", "s": 1, "e": 200, "st": 0, "tags": []},
                {"k": "F", "name": "b", "s": "1", "e": str(BIGC), "st": 1, "tags": []}]}]})
    return out
