"""C07 - see harness/remap_checks.py (plan and clauses) and spec/RemapProps.tla, spec/RemapTrace.tla, spec/PretextView.tla."""
from harness.remap_checks import main_for


def main(tier, replay=None):
    main_for("C07", tier, replay)
