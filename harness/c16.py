"""C16 - --no-clobber never alters an existing file.  Spec: Clobber.tla (ordered exclusive creates), ClobberTrace.tla."""
import json
import os

from harness import cli_engine as E
from harness import common as C

PLANS = {
    "quick": dict(maxpre=2, cfgs=[("multi", "fa", "fa", 1), ("multi", "fa", "agp", 0), ("multi", "fa", "tpf", 1), ("single", "fa", "fa", 1), ("twohap", "fa", "agp", 1),
                                  ("single", "tpf", "tpf", 0)]),
    "thorough": dict(maxpre=99, cfgs=[(c, i, o, l) for c in ("multi", "twohap", "single") for (i, o) in (("fa", "fa"), ("fa", "agp"), ("fa", "tpf"), ("agp", "tpf"))
                                      for l in (0, 1)]),
}


def export(run, n, maxpre, k):
    cfg = f"SPECIFICATION Spec\nCONSTANTS N = {n} MaxPre = {min(maxpre, n)}\nCHECK_DEADLOCK FALSE\nCONSTRAINT Emit\nINVARIANT NoClobberSafe\n" \
          "INVARIANT ClobberRewrites\nINVARIANT FreshRunSucceeds\nPROPERTY Terminates\n"
    r = C.tlc_ok(C.tlc("ClobberScen", cfg, run.dir, name=f"MC_Clobber_{k}", workers=1, timeout=1200), "Clobber model check / export")
    objs = [o for o in C.emitted(r["out"]) if isinstance(o, dict)]
    seen = set()
    uniq = []
    for o in objs:
        key = (tuple(o["pre"]), o["clobber"])
        if key not in seen:
            seen.add(key)
            uniq.append(o)
    return uniq, r


def main(tier, replay=None):
    run = C.Run("C16", tier)
    plan = PLANS[tier]
    root = str(run.sub("cli"))
    scen = []
    mcs = []
    refs = {}
    if replay:
        tr = json.load(open(replay))["trace"]
        cfg, fmts, lg = tr["cfg"].split("/")[:3]
        i, o = fmts.split("->")
        ref = E.clobber_reference(root, cfg, i, o, 1 if lg == "log" else 0)
        traces = [E.clobber_case({"tid": 1, "ref": ref, "root": root, "cfg": cfg, "in_fmt": i, "out_fmt": o, "log": 1 if lg == "log" else 0,
                                  "pre": tr["pre"], "clobber": tr["clobber"], "empty": 1 if "empty-files" in tr["cfg"] else 0, "rerun": 1 if "after-an-earlier-run" in tr["cfg"] else 0,
                                  "same": 1 if "same-content" in tr["cfg"] else 0, "dangling": 1 if "dangling-links" in tr["cfg"] else 0})]
        jr = C.judge("ClobberTrace", traces, run.dir, consts="N = 1 MaxPre = 1", spec="TraceSpec")
        C.finish(run, "C16", C.report(run, "C16", jr["V"], {1: traces[0]}))
    for k, (cfg, i, o, lg) in enumerate(plan["cfgs"]):
        ref = E.clobber_reference(root, cfg, i, o, lg)
        n = len(ref["outputs"])
        objs, r = export(run, n, plan["maxpre"], k)
        mcs.append({"config": f"{cfg}/{i}->{o}/{'log' if lg else 'nolog'}", "outputs": ref["outputs"], "model_states": r["distinct"],
                    "model_transitions": r["generated"], "cases": len(objs)})
        for ob in objs:
            scen.append({"ref": ref, "root": root, "cfg": cfg, "in_fmt": i, "out_fmt": o, "log": lg, "pre": ob["pre"], "clobber": ob["clobber"]})
            if ob["pre"] and (len(ob["pre"]) == 1 or tier == "thorough"):
                scen.append({"ref": ref, "root": root, "cfg": cfg, "in_fmt": i, "out_fmt": o, "log": lg, "pre": ob["pre"], "clobber": ob["clobber"], "empty": 1})
            # ... pre-existing paths that are dangling symbolic links (--no-clobber only: the statement's "unchanged" then means still dangling)
            if ob["pre"] and ob["clobber"] == 0 and (len(ob["pre"]) == 1 or tier == "thorough") and not any(ref["outputs"][i - 1].endswith(".log") for i in ob["pre"]):
                scen.append({"ref": ref, "root": root, "cfg": cfg, "in_fmt": i, "out_fmt": o, "log": lg, "pre": ob["pre"], "clobber": 0, "dangling": 1})
            # ... and pre-existing files that already hold exactly what the run would write (left by an earlier, identical run)
            if ob["pre"] and (len(ob["pre"]) <= 2 or tier == "thorough"):
                scen.append({"ref": ref, "root": root, "cfg": cfg, "in_fmt": i, "out_fmt": o, "log": lg, "pre": ob["pre"], "clobber": ob["clobber"], "same": 1})
        # histories: the same command run twice in one process into the same directory
        for cl in (0, 1):
            scen.append({"ref": ref, "root": root, "cfg": cfg, "in_fmt": i, "out_fmt": o, "log": lg, "pre": list(range(1, n + 1)), "clobber": cl, "rerun": 1})
    for t, s in enumerate(scen, 1):
        s["tid"] = t
    traces = C.pmap("harness.cli_engine", "clobber_case", scen, chunk=20)
    jr = C.judge("ClobberTrace", traces, run.dir, consts="N = 1 MaxPre = 1", shard=max(100, len(traces) // 16 + 1), spec="TraceSpec")
    nv = C.report(run, "C16", jr["V"], {t["tid"]: t for t in traces})
    for m in jr["M"][:5]:
        print(f"MODEL-DRIFT action={m[2]} trace={m[1]} detail={m[3]}")
    proof = C.tlaps(run, "ClobberProof", deps=("Clobber",))
    proof["theorem"] = "Spec => []NoClobberSafe for every number N of output files (inductive invariant Inv)"
    exits = {}
    for t in traces:
        key = ("clobber" if t["clobber"] else "no-clobber") + f"/exit{t['exit']}"
        exits[key] = exits.get(key, 0) + 1
    cov = {
        "states": sum(m["model_states"] for m in mcs), "transitions": sum(m["model_transitions"] for m in mcs),
        "traces_validated_against_impl": jr["judged"], "exhaustive": plan["maxpre"] >= 99,
        "evaluations": len(traces), "distinct_nontrivial": sum(1 for t in traces if t["pre"]),
        "rule": "for each CLI configuration (single / multi-assembly / two-haplotype output x input and output format x log on/off) the output set is "
                "taken from a reference run into an empty directory; TLC (Clobber.tla) enumerates the subsets of pre-existing outputs "
                + ("(all 2^n)" if plan["maxpre"] >= 99 else f"(size <= {plan['maxpre']} and the full set)") + " x clobber on/off; each is executed "
                "by the real pretext-to-asm CLI in a fresh directory whose pre-existing files hold 80 kB of junk (single pre-existing files also as zero-length files; one or two pre-existing files also with exactly the content the run would write); non-trivial = non-empty subset",
        "unbounded_proof_of_the_design": proof, "configurations": mcs, "runs_by_mode_and_exit": exits, "model_drift": len(jr["M"]), "model_conformant": len(jr["M"]) == 0,
        "samples": [traces[1], traces[len(traces) // 2]], "known_findings_seen": run.known,
    }
    C.write_evidence(run, "C16", cov, assumptions=["the CLI is run in-process through click's test runner (exit status and stderr as a sub-process would give)",
                     "the reference output set is whatever the current tree writes into an empty directory", "TLC + Json trusted"])
    C.finish(run, "C16", nv)
