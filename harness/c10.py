"""C10 - chromosome, unloc and haplotig names are unique and ranked by size.
Spec: Chromosomes.tla (scenario model), NamingProps.tla (predicates), RemapTrace.tla (judge)."""
import json
import random

from harness import common as C
from harness import remap_engine as R

PLANS = {"quick": [(1, "SUPER_", 2000, 12), (1, "CHR", 500, 12), (1, "Scaffold_", 300, 6), (1, "S", 200, 5), (2, "SUPER_", 2000, 8), (1, "SUPER_", 800, 3), (2, "SUPER_", 800, 5, "HAP2")],
         "thorough": [(1, "SUPER_", 30000, 12), (1, "CHR", 5000, 12), (1, "Scaffold_", 3000, 8), (1, "S", 2000, 6), (2, "SUPER_", 30000, 10), (2, "chr", 5000, 6), (1, "SUPER_", 5000, 3),
                      (2, "SUPER_", 10000, 8, "HAP2")]}


PV_CAP = {"quick": 1500, "thorough": 10000}
SIM = {"quick": "num=150", "thorough": "num=800"}      # seeded random edit scripts (TLC simulation); the exhaustive tagged graphs are C09's thorough tier


def export(run, haps, prefix, n, maxchr, k, firsthap="HAP1"):
    cfg = (f'INIT Init\nNEXT Next\nCHECK_DEADLOCK FALSE\nCONSTRAINT Emit\nCONSTANTS NScen = {n} MaxChr = {maxchr} Haps = {haps} Prefix = "{prefix}" '
           f'FirstHap = "{firsthap}"\n')
    r = C.tlc_ok(C.tlc("Chromosomes", cfg, run.dir, name=f"chr-{k}", workers=1, timeout=1500, args=["-seed", str(C.seed() + 11 + k)], heap="4g"),
                 "chromosome scenario export")
    objs = C.emitted(r["out"])
    if len(objs) != r["distinct"] and len(objs) != r["generated"]:
        raise C.Machinery(f"chromosome export: {len(objs)} parsed, {r['distinct']} states")
    return objs, r


def main(tier, replay=None):
    run = C.Run("C10", tier)
    if replay:
        tr = json.load(open(replay))["trace"]
        sc = {k: tr[k] for k in ("tn", "td", "naming", "valid", "input", "map", "cls", "haps", "prefix", "nhaps", "style") if k in tr}
        sc["tid"] = 1
        traces = [R.run_scenario(sc)]
        jr = R.judge(run, traces, ["C10"])
        C.finish(run, "C10", C.report(run, "C10", jr["V"], {1: traces[0]}))
    scen = []
    exports = []
    for k, plan in enumerate(PLANS[tier]):
        haps, prefix, n, maxchr = plan[:4]
        objs, r = export(run, haps, prefix, n, maxchr, k, plan[4] if len(plan) > 4 else "HAP1")
        for o in objs:
            o["cls"] = f"{haps}-haplotype/{prefix}"
            o["style"] = "plain" if haps == 1 else "hap"
        scen += objs
        exports.append({"haplotypes": haps, "prefix": prefix, "max_chromosomes": maxchr, "scenarios": len(objs), "model_states": r["distinct"],
                        "model_transitions": r["generated"], "wall_s": r["wall_s"]})
    seen = set()
    uniq = []
    for s in scen:
        key = json.dumps([s["prefix"], s["input"], s["map"]], sort_keys=True)
        if key not in seen:
            seen.add(key)
            uniq.append(s)
    scen = uniq
    for i, s in enumerate(scen, 1):
        s["tid"] = i
    traces = C.pmap("harness.remap_engine", "run_scenario", scen, chunk=200)
    # the derived reports (Reports.tla, model-drift clauses) are judged on every third (thorough: fifth) trace only: their predicates cost TLC
    # several times what C10's own do
    for t in traces:
        if t["tid"] % (5 if tier == "thorough" else 3):
            t.pop("report", None)
    # uniqueness of names within an assembly also on maps with real geometry: tagged PretextView-model maps (cut and moved pieces, Target mode,
    # sequence absent from the map) of plain and of haplotype-resolved assemblies
    rng = random.Random(C.seed() + 3)
    pv = []
    for style in ("plain", "hap"):
        for tn, td in R.TEXELS[tier]:
            objs, r = R.export(run, f"pv-tagged-{style}-{tn}-{td}", tn, td, "tagged", 3, 0 if tier == "quick" else 1, 0, cap=PV_CAP[tier], rng=rng, style=style,
                               simulate=SIM[tier], workers=1 if SIM[tier] else 8)
            for o in objs:
                o["cls"] = "pretextview-tagged/" + style
            pv += objs
            exports.append({"haplotypes": 2 if style == "hap" else 1, "prefix": "SUPER_", "max_chromosomes": 0, "scenarios": len(objs), "model_states": r["distinct"],
                            "model_transitions": r["generated"], "wall_s": r["wall_s"], "model": "PretextView.tla tagged"})
    for i, s in enumerate(pv, len(scen) + 1):
        s["tid"] = i
    pvt = C.pmap("harness.remap_engine", "run_scenario", pv, chunk=300)
    # ... and the files the command line tool writes for tagged maps of three haplotypes (Primary mode merges haplotypes into one file)
    pc = []
    for tn, td in R.TEXELS[tier][:2]:
        objs, r = R.export(run, f"pv-tagged-hap3-cli-{tn}-{td}", tn, td, "tagged", 3, 0, 0, cap=PV_CAP[tier] // 2, rng=rng, style="hap3", simulate=SIM[tier], workers=1 if SIM[tier] else 8)
        for o in objs:
            o.update(cls="pretextview-tagged/hap3", root=str(run.sub("clir")))
        pc += objs
        exports.append({"haplotypes": 3, "prefix": "SUPER_", "max_chromosomes": 0, "scenarios": len(objs), "model_states": r["distinct"],
                        "model_transitions": r["generated"], "wall_s": r["wall_s"], "model": "PretextView.tla tagged, through the CLI"})
    for i, s in enumerate(pc, len(scen) + len(pv) + 1):
        s["tid"] = i
    pvt += C.pmap("harness.remap_engine", "run_scenario_cli", pc, chunk=100)
    jr = R.judge(run, traces, ["C10", "MODEL"])
    jr2 = R.judge(run, pvt, ["C10"], label="RemapTrace-pv")      # the PretextView-model maps: C10's uniqueness clause only
    traces += pvt
    jr["V"] += jr2["V"]
    jr["judged"] += jr2["judged"]
    jr["N"]["output_scaffolds_checked_for_unique_names"] = jr2["N"].get("pieces_with_core", 0)
    n = C.report(run, "C10", jr["V"], {t["tid"]: t for t in traces})
    for m in jr["M"][:5]:
        print(f"MODEL-DRIFT action={m[2]} trace={m[1]} detail={m[3]}")
    status = {}
    for t in traces:
        status[t["status"] + (":" + t["msg"][:40] if t["status"] != "ok" else "")] = status.get(t["status"] + (":" + t["msg"][:40] if t["status"] != "ok" else ""), 0) + 1
    nchr = {}
    for t in traces:
        c = len({g["chr"] for g in t["map"] if g.get("chr")})
        nchr[c] = nchr.get(c, 0) + 1
    smp = traces[len(traces) // 2]
    cov = {
        "states": sum(e["model_states"] for e in exports), "transitions": sum(e["model_transitions"] for e in exports),
        "traces_validated_against_impl": jr["judged"], "exhaustive": False,
        "evaluations": len(traces), "distinct_nontrivial": sum(1 for t in traces if len(t["map"]) > 1),
        "rule": "genome plans drawn by TLC (RandomElement, seeded) in Chromosomes.tla: 1..12 chromosomes of equal and different sizes, 0..3 unlocs and 0..1 "
                "haplotigs each in any order inside the Pretext scaffold, name tags X/W/B1/Z, prefixes SUPER_ / CHR, unplaced scaffolds, one haplotype or the "
                "two-haplotype grouping pattern with 0..2 homologues and Singleton tags; each executed by the real BuildAssembly with chromosome CSV; "
                "plus tagged maps of the PretextView model (real geometry) for the uniqueness clause; "
                "non-trivial = more than one Pretext scaffold",
        "exports": exports, "model_drift": len(jr["M"]), "model_conformant": len(jr["M"]) == 0, "run_status": status, "chromosomes_per_scenario": dict(sorted(nchr.items())),
        "chromosome_groups_judged": jr["N"].get("pieces_with_core", 0),
        "samples": [{k: smp[k] for k in ("prefix", "nhaps", "map", "status", "out", "csv") if k in smp}],
        "known_findings_seen": run.known,
    }
    C.write_evidence(run, "C10", cov, assumptions=["scenarios are sampled (seeded), not exhaustive", "geometry is trivial (t = 1, whole-scaffold pieces) so that "
                     "every output scaffold is identified by the input scaffold it holds", "TLC + Json trusted"])
    C.finish(run, "C10", n)
