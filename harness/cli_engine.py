"""CLI engine for C16 (no-clobber), C17 (determinism) and the end-to-end clauses of C03/C06: renders scenarios to real input files
and runs the real pretext-to-asm / asm-format command line tools (in-process through click's test runner, or as sub-processes)."""
import hashlib
import os
import random
import shutil
import subprocess
import sys
import tempfile
from pathlib import Path

from harness import common as C

PY = "/venv/bin/python"


def sha(b):
    return hashlib.sha1(b).hexdigest()[:16]


def residues(name, n):
    rng = random.Random(name)
    return "".join(rng.choice("ACGT") for _ in range(n))


# ------------------------------------------------------------------------------------------------- fixed CLI configurations (C16)
def cfg_inputs(cfg):
    """(FASTA text, Pretext AGP text) of the three output configurations used by C16"""
    def rec(name, parts):
        seq = "".join(residues(name + str(i), p) if isinstance(p, int) else "N" * int(p[1:]) for i, p in enumerate(parts))
        return seq
    if cfg == "single":
        recs = {"S1": rec("S1", [40, "N10", 30]), "S2": rec("S2", [25])}
        agp = ["# HiC MAP RESOLUTION: 1.000000 bp/texel", "Scaffold_1\t1\t80\t1\tW\tS1\t1\t80\t+", "Scaffold_2\t1\t25\t1\tW\tS2\t1\t25\t-"]
    elif cfg == "multi":
        recs = {"S1": rec("S1", [50, "N10", 40]), "S2": rec("S2", [30]), "S3": rec("S3", [20]), "S4": rec("S4", [24]), "S5": rec("S5", [12]),
                "S6": rec("S6", [33])}
        agp = ["# HiC MAP RESOLUTION: 1.000000 bp/texel",
               "Scaffold_1\t1\t100\t1\tW\tS1\t1\t100\t+\tPainted", "Scaffold_1\t101\t200\t2\tU\t100\tscaffold\tyes\tproximity_ligation",
               "Scaffold_1\t201\t212\t3\tW\tS5\t1\t12\t+\tPainted\tUnloc", "Scaffold_1\t213\t312\t4\tU\t100\tscaffold\tyes\tproximity_ligation",
               "Scaffold_1\t313\t345\t5\tW\tS6\t1\t33\t-\tPainted",
               "Scaffold_2\t1\t30\t1\tW\tS2\t1\t30\t-\tPainted\tX", "Scaffold_3\t1\t20\t1\tW\tS3\t1\t20\t+\tHaplotig",
               "Scaffold_4\t1\t24\t1\tW\tS4\t1\t24\t+\tContaminant"]
    elif cfg == "cut":
        # one contig cut into two pieces by the map; the pieces carry two tags besides Painted (so that cut fragments get several tags)
        recs = {"S1": rec("S1", [90]), "S2": rec("S2", [40, "N10", 20])}
        agp = ["# HiC MAP RESOLUTION: 1.000000 bp/texel",
               "Scaffold_1\t1\t50\t1\tW\tS1\t1\t50\t+\tPainted\tX\tSingleton", "Scaffold_2\t1\t40\t1\tW\tS1\t51\t90\t-\tPainted\tW\tSingleton",
               "Scaffold_3\t1\t70\t1\tW\tS2\t1\t70\t+"]
    elif cfg == "recurate":
        # re-curation of an already curated assembly: input names of the shape word_x_digits are read as carrying a haplotype
        recs = {"SUPER_1": rec("r1", [60]), "SUPER_2": rec("r2", [50, "N10", 30]), "SUPER_2_unloc_1": rec("r3", [20]), "scaffold_4": rec("r4", [15])}
        agp = ["# HiC MAP RESOLUTION: 1.000000 bp/texel", "Scaffold_1\t1\t60\t1\tW\tSUPER_1\t1\t60\t+", "Scaffold_2\t1\t90\t1\tW\tSUPER_2\t1\t90\t-",
               "Scaffold_3\t1\t20\t1\tW\tSUPER_2_unloc_1\t1\t20\t+", "Scaffold_4\t1\t15\t1\tW\tscaffold_4\t1\t15\t+"]
    elif cfg == "threehap":
        # three haplotypes of which one is curated (Primary tag): the other two are merged into one all_haplotigs file
        recs = {"HAP1_SCAFFOLD_1": rec("t1", [60]), "HAP2_SCAFFOLD_2": rec("t2", [40, "N10", 15]), "HAP3_SCAFFOLD_3": rec("t3", [50]),
                "HAP2_SCAFFOLD_4": rec("t4", [18]), "HAP3_SCAFFOLD_5": rec("t5", [22]), "HAP1_SCAFFOLD_6": rec("t6", [12])}
        agp = ["# HiC MAP RESOLUTION: 1.000000 bp/texel",
               "Scaffold_1\t1\t60\t1\tW\tHAP1_SCAFFOLD_1\t1\t60\t+\tPainted\tPrimary", "Scaffold_2\t1\t65\t1\tW\tHAP2_SCAFFOLD_2\t1\t65\t+\tPainted",
               "Scaffold_3\t1\t50\t1\tW\tHAP3_SCAFFOLD_3\t1\t50\t-\tPainted", "Scaffold_4\t1\t18\t1\tW\tHAP2_SCAFFOLD_4\t1\t18\t+",
               "Scaffold_5\t1\t22\t1\tW\tHAP3_SCAFFOLD_5\t1\t22\t+", "Scaffold_6\t1\t12\t1\tW\tHAP1_SCAFFOLD_6\t1\t12\t+\tHaplotig"]
    else:  # twohap
        recs = {"HAP1_SCAFFOLD_1": rec("h1", [60]), "HAP2_SCAFFOLD_2": rec("h2", [55]), "HAP1_SCAFFOLD_3": rec("h3", [20]), "HAP2_SCAFFOLD_4": rec("h4", [18])}
        agp = ["# HiC MAP RESOLUTION: 1.000000 bp/texel",
               "Scaffold_1\t1\t60\t1\tW\tHAP1_SCAFFOLD_1\t1\t60\t+\tPainted\tHAP1", "Scaffold_2\t1\t55\t1\tW\tHAP2_SCAFFOLD_2\t1\t55\t+\tPainted\tHAP2",
               "Scaffold_3\t1\t20\t1\tW\tHAP1_SCAFFOLD_3\t1\t20\t+", "Scaffold_4\t1\t18\t1\tW\tHAP2_SCAFFOLD_4\t1\t18\t-\tHaplotig"]
    fa = "".join(f">{n}\n" + "".join(s[i:i + 60] + "\n" for i in range(0, len(s), 60)) for n, s in recs.items())
    return fa, "\n".join(agp) + "\n"


def write_inputs(d, cfg, in_fmt):
    """write the configuration's inputs into directory d; returns (assembly path, pretext path)"""
    fa, agp = cfg_inputs(cfg)
    d = Path(d)
    (d / "in.fa").write_text(fa)
    (d / "p.agp").write_text(agp)
    if in_fmt == "fa":
        return d / "in.fa", d / "p.agp"
    # AGP / TPF input derived from the FASTA by the real indexer and asm-format code paths
    from tola.assembly.format import format_agp, format_tpf
    from tola.fasta.index import index_fasta_file
    _, asm = index_fasta_file(d / "in.fa")
    asm.header = []
    p = d / ("in2." + in_fmt)
    with open(p, "w") as fh:
        (format_agp if in_fmt == "agp" else format_tpf)(asm, fh)
    return p, d / "p.agp"


# ------------------------------------------------------------------------------------------------- running the CLI
def run_inproc(args, which="pretext"):
    import logging
    from click.testing import CliRunner
    logging.disable(logging.NOTSET)   # worker processes silence logging for the other engines
    if which == "pretext":
        from tola.assembly.scripts import pretext_to_asm as mod
    else:
        from tola.assembly.scripts import asm_format as mod
    try:
        runner = CliRunner(mix_stderr=False)
    except TypeError:
        runner = CliRunner()
    res = runner.invoke(mod.cli, [str(a) for a in args])
    err = ""
    try:
        err = res.stderr
    except Exception:  # noqa: BLE001
        pass
    exc = "" if res.exception is None or isinstance(res.exception, SystemExit) else type(res.exception).__name__
    logging.shutdown()
    for h in list(logging.getLogger().handlers):
        logging.getLogger().removeHandler(h)
        try:
            h.close()
        except Exception:  # noqa: BLE001
            pass
    return res.exit_code, (res.output or "") + (err or ""), exc


def run_subproc(args, which="pretext", env=None, cwd=None):
    mod = "tola.assembly.scripts.pretext_to_asm" if which == "pretext" else "tola.assembly.scripts.asm_format"
    e = dict(os.environ)
    e["PYTHONPATH"] = str(C.REPO / "src")
    e["PYTHONDONTWRITEBYTECODE"] = "1"
    if env:
        e.update(env)
    p = subprocess.run([PY, "-m", mod] + [str(a) for a in args], capture_output=True, text=True, env=e, cwd=cwd, timeout=120)
    return p.returncode, p.stdout + p.stderr, ""


def snapshot(d, norm=None):
    out = {}
    for p in sorted(Path(d).iterdir()):
        if p.is_file():
            b = p.read_bytes()
            if norm:
                for a in norm:
                    b = b.replace(a.encode(), b"<DIR>")
            out[p.name] = sha(b)
    return out


def created_order(text, outdir, logname):
    import re
    names = []
    if logname:
        names.append(logname)
    for m in re.finditer(r"(?:Created|Overwrote): '([^']+)'", text):
        n = os.path.basename(m.group(1))
        if n not in names:
            names.append(n)
    return names


# ------------------------------------------------------------------------------------------------- C16
def clobber_reference(root, cfg, in_fmt, out_fmt, log):
    """reference run into an empty directory: returns dict(outputs in creation order, content digests)"""
    d = Path(tempfile.mkdtemp(prefix="c16ref-", dir=root))
    ind = d / "inp"
    ind.mkdir()
    asm_p, ptx_p = write_inputs(ind, cfg, in_fmt)
    out = d / "out"
    out.mkdir()
    args = ["-a", asm_p, "-p", ptx_p, "-o", out / f"x.1.{out_fmt}"] + (["--write-log"] if log else ["--no-write-log"])
    rc, text, exc = run_inproc(args)
    if rc != 0:
        raise C.Machinery(f"C16 reference run failed cfg={cfg} {in_fmt}->{out_fmt}: rc={rc} exc={exc}\n{text[-800:]}")
    snap = snapshot(out, norm=[str(out)])
    order = created_order(text, out, "x.1.log" if log else None)
    missing = [n for n in snap if n not in order]
    return {"dir": str(d), "inputs": (str(asm_p), str(ptx_p)), "outputs": order + missing, "digests": snap}


def clobber_case(sc):
    """one configuration: pre-existing subset + clobber flag, run in a fresh directory"""
    ref = sc["ref"]
    d = Path(tempfile.mkdtemp(prefix="c16-", dir=sc["root"]))
    outputs = ref["outputs"]
    pre = [outputs[i - 1] for i in sc["pre"]]
    junk = b"" if sc.get("empty") else b"JUNK" * 20000      # pre-existing files: 80 kB of junk, or zero-length files
    if sc.get("rerun"):
        # the pre-existing files are the outputs of an earlier run of the tool itself, in the same process, into the same directory
        first = ["-a", ref["inputs"][0], "-p", ref["inputs"][1], "-o", d / f"x.1.{sc['out_fmt']}"] + (["--write-log"] if sc["log"] else ["--no-write-log"])
        run_inproc(first)
    elif sc.get("same"):
        for n in pre:
            (d / n).write_bytes((Path(ref["dir"]) / "out" / n).read_bytes())
    elif sc.get("dangling"):
        # the pre-existing output paths are symbolic links whose targets are gone (outputs once linked into a scratch area since purged)
        (d / "gone").mkdir()
        for n in pre:
            os.symlink(d / "gone" / ("target-of-" + n), d / n)
    else:
        for n in pre:
            (d / n).write_bytes(junk)
    before = snapshot(d)
    if sc.get("dangling"):
        before = {n: "dangling-link" for n in pre}
    args = ["-a", ref["inputs"][0], "-p", ref["inputs"][1], "-o", d / f"x.1.{sc['out_fmt']}"] + (["--write-log"] if sc["log"] else ["--no-write-log"]) \
        + (["--clobber"] if sc["clobber"] else ["--no-clobber"])
    r = C.guarded(lambda _: run_inproc(args), None, 60.0)
    if r[0] != "ok":
        rc, text = 99, "HANG" if r[0] == "hang" else r[1]
    else:
        rc, text, exc = r[1]
        if exc:
            rc = rc or 98
    after = snapshot(d)
    after_n = snapshot(d, norm=[str(d)])
    if sc.get("dangling"):
        # unchanged = still a link to nothing, and nothing was created behind it
        for n in pre:
            after[n] = "dangling-link" if os.path.islink(d / n) and not os.path.exists(d / n) and not os.listdir(d / "gone") else "written-through-link"
        after.pop("gone", None)
    t = {"tid": sc["tid"], "cfg": sc["cfg"] + "/" + sc["in_fmt"] + "->" + sc["out_fmt"] + ("/log" if sc["log"] else "/nolog") + ("/empty-files" if sc.get("empty") else "") + ("/after-an-earlier-run" if sc.get("rerun") else "") + ("/same-content" if sc.get("same") else "") + ("/dangling-links" if sc.get("dangling") else ""), "outputs": outputs,
         "pre": sc["pre"], "clobber": sc["clobber"], "exit": rc,
         "named": [i for i, n in enumerate(outputs, 1) if str(d / n) in text],
         "unchanged": [i for i, n in enumerate(outputs, 1) if n in before and after.get(n) == before[n]],
         "asref": [i for i, n in enumerate(outputs, 1) if after_n.get(n) == ref["digests"].get(n)],
         "extra": len([n for n in after if n not in outputs]), "tail": text[-300:]}
    shutil.rmtree(d, ignore_errors=True)
    return t


# ------------------------------------------------------------------------------------------------- FASTA companion AGP (C03 / C06 end to end)
def fasta_records(path):
    recs = {}
    name = None
    for line in open(path):
        line = line.rstrip("\n")
        if line.startswith(">"):
            name = line[1:].split()[0]
            recs[name] = ""
        elif name is not None:
            recs[name] += line
    return recs


# ------------------------------------------------------------------------------------------------- end to end: FASTA in, FASTA + AGP out
def cli_fasta_case(sc):
    """Run pretext-to-asm on a FASTA input writing FASTA output (with a small stream buffer, so that join gaps and fragments are chunked)
    and return (a) a FastaTrace 'file' trace: every output record as the stream of the rows its companion AGP lists, over the input FASTA,
    (b) AgpTpfTrace 'agp' traces: each companion AGP with the lengths of the FASTA records written beside it."""
    from harness import agp_engine as A
    import tola.fasta.index as index
    root, cfg, buf, tid = sc["root"], sc["cfg"], sc["buf"], sc["tid"]
    d = Path(tempfile.mkdtemp(prefix="e2e-", dir=root))
    ind = d / "inp"
    ind.mkdir()
    asm_p, ptx_p = write_inputs(ind, cfg, "fa")
    out = d / "out"
    out.mkdir()
    old = index.FastaIndex.__init__.__defaults__
    index.FastaIndex.__init__.__defaults__ = (buf,)
    try:
        rc, text, exc = run_inproc(["-a", asm_p, "-p", ptx_p, "-o", out / "x.1.fa", "--no-write-log"])
    finally:
        index.FastaIndex.__init__.__defaults__ = old
    inp = fasta_records(asm_p)
    recs = [{"name": n, "hlen": 1 + len(n), "res": list(s), "w": 60, "eol": 1} for n, s in inp.items()]
    ft = {"tid": tid, "kind": "file", "cls": f"cli/{cfg}/buf={buf}", "recs": recs, "fnl": 1, "maxline": 60, "idxruns": [], "reads": [], "asms": [], "derived": 0,
          "streams": [], "revpairs": [], "agp": [], "fai": [], "exit": rc}
    agps = []
    for fa in sorted(out.glob("*.fa")):
        agp = fa.with_suffix(".agp")
        written = fasta_records(fa)
        if not agp.exists():
            agps.append(A.agp_trace(0, "pretext-to-asm-cli/missing-companion", [], [{"obj": n, "len": len(s)} for n, s in written.items()]))
            continue
        m = A.matrix(agp.read_text())
        agps.append(A.agp_trace(0, f"pretext-to-asm-cli/{cfg}/buf={buf}", m, [{"obj": n, "len": len(s)} for n, s in written.items()]))
        # rows per object, in file order
        objs = {}
        for f in m:
            if f[0].startswith("#"):
                continue
            if f[4] in ("U", "N"):
                row = {"k": "G", "name": f[6], "s": 1, "e": int(f[5]), "st": 0}
            else:
                row = {"k": "F", "name": f[5], "s": int(f[6]), "e": int(f[7]), "st": {"+": 1, "-": -1}.get(f[8], 0)}
            objs.setdefault(f[0], []).append(row)
        order_ok = list(objs) == list(written)
        text_lines = fa.read_text().split("\n")
        for name, rows in objs.items():
            ft["asms"].append(rows)
            seq = written.get(name, "")
            # the record's own lines as written
            lines = []
            grab = False
            for ln in text_lines:
                if ln.startswith(">"):
                    grab = ln[1:].split()[0] == name if ln[1:].split() else False
                    continue
                if grab and ln != "":
                    lines.append(list(ln))
            ft["streams"].append({"a": len(ft["asms"]), "B": buf, "L": 60, "exc": "" if rc == 0 else "exit" + str(rc), "hdr": 1 if (name in written and order_ok) else 0,
                                  "lines": lines, "maxchunk": 0, "maxread": 0, "e2e": 1})
    shutil.rmtree(d, ignore_errors=True)
    return {"file": ft, "agps": agps}


# ------------------------------------------------------------------------------------------------- conservation through the files the CLI writes
def tpf_rows(path):
    """independent reader of a TPF file: list of scaffolds [name, rows] with rows in the Rows.tla record shape"""
    scs = []
    for line in Path(path).read_text().splitlines():
        if not line.strip() or line.startswith("#"):
            continue
        f = line.split("\t")
        if f[0] == "GAP":
            row = {"k": "G", "name": {"TYPE-2": "scaffold", "TYPE-3": "contig"}.get(f[1], f[1].lower().replace("-", "_")), "s": 1, "e": int(f[2]), "st": 0}
            scs[-1]["rows"].append(row)
            continue
        nm, se = f[1].rsplit(":", 1)
        a, b = se.split("-")
        if not scs or scs[-1]["name"] != f[2]:
            scs.append({"name": f[2], "rows": []})
        scs[-1]["rows"].append({"k": "F", "name": nm, "s": int(a), "e": int(b), "st": {"PLUS": 1, "MINUS": -1}.get(f[3], 0)})
    return scs


def cli_remap_case(sc):
    """pretext-to-asm with TPF input and TPF output; the trace holds the input rows and the rows of EVERY file written (RemapTrace, class cli)"""
    root, cfg, tid = sc["root"], sc["cfg"], sc["tid"]
    d = Path(tempfile.mkdtemp(prefix="clir-", dir=root))
    ind = d / "inp"
    ind.mkdir()
    asm_p, ptx_p = write_inputs(ind, cfg, "tpf")
    out = d / "out"
    out.mkdir()
    rc, text, exc = run_inproc(["-a", asm_p, "-p", ptx_p, "-o", out / "x.1.tpf", "--no-write-log"])
    t = {"tid": tid, "cls": "cli/" + cfg, "tn": 1, "td": 1, "naming": "fasta", "valid": 0, "input": tpf_rows(asm_p), "map": [], "haps": [], "style": "cli",
         "status": "ok" if rc == 0 else f"exc:exit{rc}", "out": [], "stats": {"cuts": 0, "breaks": 0, "joins": 0}, "msg": text[-200:]}
    hap_written = 0
    for f in sorted(out.glob("*.tpf")):
        scs = tpf_rows(f)
        if ".haplotigs." in f.name or ".additional_haplotigs." in f.name:
            hap_written += len(scs)
        for s in scs:
            t["out"].append({"asm": f.name, "asm_lc": f.name.lower(), "name": s["name"], "rank": 0, "tag": "", "hap": "", "orig": "", "rows": s["rows"]})
    # the info yaml's haplotig-removal count (read with a regular expression, not with the yaml library the tool itself uses)
    import re
    yml = out / "x.1.info.yaml"
    m = re.search(r"^manual_haplotig_removals:\s*(\d+)\s*$", yml.read_text(), flags=re.M) if yml.exists() else None
    t["yaml_haplotig_removals"] = int(m.group(1)) if m else -1
    t["haplotig_scaffolds_written"] = hap_written
    shutil.rmtree(d, ignore_errors=True)
    return t
