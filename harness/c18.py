"""C18 - overlap results keep span and content consistent under every edit sequence.
Spec: OverlapResult.tla (state machine + property predicates), OverlapResultScen.tla, OverlapResultTrace.tla."""
import json
import random

from harness import common as C

TIERS = {
    "quick": dict(consts="MaxRows = 3 Lens = {1, 2, 5} ErrLens = {1, 2, 3}", rnd=1500),
    "thorough": dict(consts="MaxRows = 4 Lens = {1, 5} ErrLens = {1, 2, 3, 5}", rnd=20000),
}
OPS = None  # operation alphabet, exported by TLC
MAXNODES = 400


def prow(r):
    from tola.assembly.gap import Gap
    if isinstance(r, Gap):
        return {"k": "G", "name": r.gap_type, "s": 1, "e": r.length, "st": 0}
    return {"k": "F", "name": r.name, "s": r.start, "e": r.end, "st": r.strand}


def mkrow(r):
    from tola.assembly.fragment import Fragment
    from tola.assembly.gap import Gap
    if r["k"] == "G":
        return Gap(r["e"] - r["s"] + 1, r["name"])
    return Fragment(r["name"], r["s"], r["e"], r["st"])


def figures(o):
    d = {"err": 0, "len": 0, "so": 0, "eo": 0, "srbo": 0, "erbo": 0, "ois": 0, "oie": 0}
    try:
        d["len"] = o.length
        d["so"] = o.start_overhang
        d["eo"] = o.end_overhang
        if o.rows:
            d["srbo"] = o.start_row_bait_overlap
            d["erbo"] = o.end_row_bait_overlap
            d["ois"] = o.overhang_if_start_removed()
            d["oie"] = o.overhang_if_end_removed()
    except Exception:  # noqa: BLE001
        d["err"] = 1
    return d


def project(o):
    return {"start": int(o.start), "end": int(o.end), "rows": [prow(r) for r in o.rows], "d": figures(o)}


def apply_op(o, op):
    if op["n"] == "DS":
        o.discard_start()
    elif op["n"] == "DE":
        o.discard_end()
    elif op["n"] == "TL":
        o.trim_large_overhangs(op["e"])
    else:
        o.trim_fragment(o.rows[0] if op["side"] == "first" else o.rows[-1], op["ks"], op["ke"])


def explore(sc):
    from tola.assembly.fragment import Fragment
    from tola.assembly.indexed_assembly import IndexedAssembly
    from tola.assembly.overlap_result import OverlapResult
    from tola.assembly.scaffold import Scaffold

    ops = sc["ops"]
    ia = IndexedAssembly("in", scaffolds=[Scaffold("s", [mkrow(r) for r in sc["src"]])])
    bait = Fragment("s", sc["a"], sc["b"], 1)
    o0 = ia.find_overlaps(bait)
    if o0 is None:
        return {"nodes": [], "edges": [], "nolookup": 1}
    nodes = [project(o0)]
    objs = [o0]
    index = {json.dumps([nodes[0]["start"], nodes[0]["end"], nodes[0]["rows"]]): 1}
    edges = []
    k = 0
    while k < len(objs) and len(objs) < MAXNODES:
        cur = objs[k]
        for oi, op in enumerate(ops, 1):
            c = OverlapResult(bait=bait, rows=list(cur.rows), start=cur.start, end=cur.end)
            try:
                apply_op(c, op)
            except Exception:  # noqa: BLE001
                edges.append([k + 1, oi, 0])
                continue
            p = project(c)
            key = json.dumps([p["start"], p["end"], p["rows"]])
            if key not in index:
                nodes.append(p)
                objs.append(c)
                index[key] = len(nodes)
            edges.append([k + 1, oi, index[key]])
        k += 1
    return {"nodes": nodes, "edges": edges, "nolookup": 0}


def run_case(sc):
    out = C.guarded(explore, sc, limit=20.0)
    t = {"tid": sc["tid"], "cls": sc.get("cls", "enum"), "src": sc["src"], "a": sc["a"], "b": sc["b"], "hang": 0, "nodes": [], "edges": []}
    if out[0] == "ok":
        t["nodes"], t["edges"] = out[1]["nodes"], out[1]["edges"]
        if out[1]["nolookup"]:
            t["hang"] = 2
    else:
        t["hang"] = 1
        t["why"] = list(out)
    return t


def random_scen(rng, n, ops):
    out = []
    for _ in range(n):
        k = rng.randint(2, 7)
        src = []
        for i in range(1, k + 1):
            kind = rng.choice("++-?G")
            ln = rng.choice([1, 2, 3, 5, 8, 9])
            if kind == "G":
                src.append({"k": "G", "name": "scaffold", "s": 1, "e": ln, "st": 0})
            else:
                src.append({"k": "F", "name": f"c{i}", "s": 10 * i + 1, "e": 10 * i + ln, "st": 1 if kind == "+" else (-1 if kind == "-" else 0)})
        if all(r["k"] == "G" for r in src):
            continue
        tot = sum(r["e"] - r["s"] + 1 for r in src)
        a = rng.randint(1, tot)
        b = rng.randint(a, tot + 1)
        out.append({"src": src, "a": a, "b": b, "cls": "random"})
    return out


def main(tier, replay=None):
    run = C.Run("C18", tier)
    cfg = TIERS[tier]
    consts = cfg["consts"]
    scx = C.tlc_ok(C.tlc("OverlapResultScen", f"INIT Init\nNEXT ScenNext\nCHECK_DEADLOCK FALSE\nCONSTRAINT Emit\nCONSTANTS {consts}\n",
                         run.dir, name="scen", workers=1), "scenario export")
    em = C.emitted(scx["out"])
    ops = [x for x in em if isinstance(x, list)][0]
    scen = [x for x in em if isinstance(x, dict)]
    if len(scen) != scx["distinct"] or not scen:
        raise C.Machinery(f"scenario export: {len(scen)} parsed vs {scx['distinct']} initial states")
    if replay:
        rp = json.load(open(replay))["trace"]
        scen = [{"src": rp["src"], "a": rp["a"], "b": rp["b"], "cls": rp.get("cls", "replay")}]
        mc = None
    else:
        mc = C.tlc_ok(C.tlc("OverlapResult", f"SPECIFICATION Spec\nCONSTANTS {consts}\nINVARIANT InvSpan\nINVARIANT InvRun\n"
                            "INVARIANT InvNoTerminalGap\nVIEW View\nCHECK_DEADLOCK FALSE\n", run.dir, name="MC_OverlapResult",
                            args=["-coverage", "1"]), "model check")
        scen += random_scen(random.Random(C.seed()), cfg["rnd"], ops)
        # tandem repeats: the same component interval occurs several times in the source scaffold, so that distinct rows are EQUAL objects
        # (an edit must find "its" row by position, not by value)
        rng = random.Random(C.seed() + 9)
        for sc0 in rng.sample(scen, min(cfg["rnd"], 4000, len(scen))):
            src = [dict(r, name="c", s=11, e=10 + (r["e"] - r["s"] + 1)) if r["k"] == "F" else dict(r) for r in sc0["src"]]
            if sum(1 for r in src if r["k"] == "F") > 1:
                scen.append({"src": src, "a": sc0["a"], "b": sc0["b"], "cls": "tandem-repeat"})
    for i, s in enumerate(scen, 1):
        s["tid"] = i
        s["ops"] = ops
    traces = C.pmap("harness.c18", "run_case", scen, chunk=500)
    # a lookup that finds nothing where the scenario (from the model) has a hit is not C18's business (C12): drop, but count
    nolookup = [t for t in traces if t["hang"] == 2]
    traces = [t for t in traces if t["hang"] != 2]
    # (thorough tier: 400 k traces are about 11 GB in this process; eight judge JVMs at a time keep the total well inside 64 GB)
    jr = C.judge("OverlapResultTrace", traces, run.dir, consts=consts, shard=max(200, len(traces) // 16 + 1), spec="TraceSpec",
                 header={"ops": ops}, jobs=8 if tier == "thorough" else C.NCPU)
    by = {t["tid"]: t for t in traces}
    n = C.report(run, "C18", jr["V"], by)
    for m in jr["M"][:5]:
        print(f"MODEL-DRIFT action={m[2]} trace={m[1]} detail={m[3]}")
    nodes = sum(len(t["nodes"]) for t in traces)
    edges = sum(len(t["edges"]) for t in traces)
    acc = sum(1 for t in traces for e in t["edges"] if e[2])
    opcount = {}
    for t in traces:
        for e in t["edges"]:
            if e[2] and e[2] != e[0]:
                nm = ops[e[1] - 1]["n"]
                opcount[nm] = opcount.get(nm, 0) + 1
    sample = dict(traces[len(traces) // 3])
    cov = {
        "states": mc["distinct"] if mc else 1, "transitions": mc["generated"] if mc else 1,
        "traces_validated_against_impl": jr["judged"],
        "exhaustive": True,
        "evaluations": edges, "distinct_nontrivial": nodes,
        "rule": "scenario = (source scaffold, bait) = every initial state of the bounded OverlapResult model, exported by TLC; for each, the real "
                "object is driven through the whole operation alphabet until no new state appears (every (state, operation) pair of the reachable "
                "graph is executed once); evaluations = operation applications, distinct_nontrivial = distinct real states judged",
        "model_constants": consts, "real_states_judged": nodes, "real_operation_applications": edges, "accepted_applications": acc,
        "state_changing_applications_by_op": opcount, "lookups_returning_nothing": len(nolookup),
        "model_drift": len(jr["M"]), "model_conformant": len(jr["M"]) == 0 and not [t for t in nolookup if t["cls"] == "enum"],
        "action_coverage": C.coverage_counts(mc["out"]) if mc else {},
        "samples": [sample],
        "known_findings_seen": run.known,
    }
    C.write_evidence(run, "C18", cov, assumptions=[
        "TLC 1.8.0 and CommunityModules Json are trusted", "projection of real rows/figures in harness/c18.py (prow, figures, project) is trusted",
        "exhaustive inside the stated bounds only"])
    C.finish(run, "C18", n)
