"""C06 - every AGP the tools write is coordinate-valid.  Spec: AgpTpf!AgpValid, AgpTpfTrace.tla.  No generator of its own: AGP texts are
collected from the other engines (asm-format on the C05 universe, format_agp on remap outputs, the .agp cache of indexed FASTA files)."""
import json
import os
import random

from harness import agp_engine as A
from harness import common as C
from harness import fasta_engine as F
from harness import remap_engine as R

SIZES = {"quick": dict(nrandom=1500, remap_cap=2500, fasta=1500), "thorough": dict(nrandom=20000, remap_cap=20000, fasta=15000)}


def asm_format_agp(sc):
    """AGP text written by format_agp for an abstract assembly (as asm-format does)"""
    real = A.mk_asm(sc["asm"])
    m = A.matrix(A.fmt(real, "agp"))
    expect = [{"obj": s["name"], "len": sum(r["e"] - r["s"] + 1 for r in s["rows"])} for s in sc["asm"]["scaffolds"]]
    return A.agp_trace(sc["tid"], "asm-format", m, expect)


def remap_agp(sc):
    """AGP texts of every output assembly of one remap scenario"""
    from tola.assembly.build_assembly import BuildAssembly
    from tola.assembly.gap import Gap
    out = []
    try:
        ia, p = R.build_objects(sc)
        ba = BuildAssembly("o", default_gap=Gap(200, "scaffold"))
        ba.remap_to_input_assembly(p, ia)
        asms = ba.assemblies_with_scaffolds_fused()
    except Exception:  # noqa: BLE001
        return out
    for key, asm in asms.items():
        m = A.matrix(A.fmt(asm, "agp"))
        expect = [{"obj": s.name, "len": sum(R.prow(r)["e"] - R.prow(r)["s"] + 1 for r in s.rows)} for s in asm.scaffolds]
        out.append(A.agp_trace(0, "pretext-to-asm/" + (key or "primary"), m, expect))
    return out


def main(tier, replay=None):
    run = C.Run("C06", tier)
    os.environ["VERIF_AGP_ROOT"] = str(run.sub("agp"))
    os.environ["VERIF_FA_ROOT"] = str(run.sub("fa"))
    sz = SIZES[tier]
    rng = random.Random(C.seed())
    if replay:
        tr = json.load(open(replay))["trace"]
        jr = C.judge("AgpTpfTrace", [dict(tr, tid=1)], run.dir, consts="NRandomAsm = 0", spec="TraceSpec")
        print("note: C06 replays re-judge the recorded AGP text; re-run the quick check to regenerate it from the current tree")
        C.finish(run, "C06", C.report(run, "C06", jr["V"], {1: tr}))
    # (a) asm-format on the C05 universe (names unique within an assembly, as AGP objects must be)
    ex = A.export_universe(run, sz["nrandom"])
    sa = [{"asm": a} for a in ex["objs"] if len({s["name"] for s in a["scaffolds"]}) == len(a["scaffolds"])]
    for i, s in enumerate(sa, 1):
        s["tid"] = i
    traces = C.pmap("harness.c06", "asm_format_agp", sa, chunk=500)
    # (b) remap outputs
    states = ex["distinct"]
    gen = ex["generated"]
    scen = []
    for tn, td in R.TEXELS[tier]:
        objs, r = R.export(run, f"pv-{tn}-{td}", tn, td, "valid", 2, 3, cap=sz["remap_cap"], rng=rng)
        states += r["distinct"]
        gen += r["generated"]
        scen += objs
    # tagged maps of haplotype-resolved assemblies (several output assemblies, Target mode, sequence absent from the map)
    for tn, td in R.TEXELS[tier][:2]:
        objs, r = R.export(run, f"pv-tagged-{tn}-{td}", tn, td, "tagged", 3, 0, cap=sz["remap_cap"], rng=rng, style="hap",
                           simulate="num=150" if tier == "quick" else None, workers=1 if tier == "quick" else 8)
        states += r["distinct"]
        gen += r["generated"]
        scen += objs
    for s in scen:
        s["tid"] = 0
        s["cls"] = "valid"
    for lst in C.pmap("harness.c06", "remap_agp", scen, chunk=200):
        traces += lst
    # (b2) the AGP files the pretext-to-asm command line writes for tagged maps of two- and three-haplotype assemblies (Primary mode merges
    #      haplotypes into one file)
    cs = []
    for style, (tn, td) in (("hap", R.TEXELS[tier][0]), ("hap3", R.TEXELS[tier][0]), ("hap3", R.TEXELS[tier][1])):
        objs, r = R.export(run, f"pv-cli-{style}-{tn}-{td}", tn, td, "tagged", 3, 0, cap=sz["remap_cap"] // 3, rng=rng, style=style,
                           simulate="num=150" if tier == "quick" else None, workers=1 if tier == "quick" else 8)
        states += r["distinct"]
        gen += r["generated"]
        for o in objs:
            o.update(tid=0, cls="tagged-" + style, root=str(run.sub("clir")), keep_agp=1)
        cs += objs
    for ct in C.pmap("harness.remap_engine", "run_scenario_cli", cs, chunk=100):
        for af in ct.get("agp_files", []):
            word = af["file"].split(".")[-3] if af["file"].endswith(".curated.agp") else af["file"].split(".")[-2]
            traces.append(A.agp_trace(0, "pretext-to-asm-cli/" + word, af["lines"], []))
    # (c) the .agp cache written beside indexed FASTA files
    files = F.export_files(run, tier, sz["fasta"], rng)
    fsc = [{"tid": 0, "recs": f["recs"], "fnl": f["fnl"], "Bs": [7], "Ls": [60], "opts": {"disk": True, "disk_buffer": 2}, "seed": 0} for f in files]
    for ft in C.pmap("harness.fasta_engine", "run_file", fsc, chunk=100):
        if ft["agp"]:
            traces.append(A.agp_trace(0, "fasta-cache", ft["agp"], [{"obj": r["name"], "len": len(r["res"])} for r in ft["recs"]]))
    # (d) the AGP written beside a FASTA by the pretext-to-asm CLI, with the lengths of the records actually written
    from harness import cli_engine
    jobs = [{"root": str(run.sub("cli")), "cfg": c, "buf": b, "tid": 0} for c in ("single", "multi", "twohap") for b in (7, 64, 250000)]
    for r in C.pmap("harness.cli_engine", "cli_fasta_case", jobs, chunk=1):
        traces += r["agps"]
    for i, t in enumerate(traces, 1):
        t["tid"] = i
    jr = C.judge("AgpTpfTrace", traces, run.dir, consts="NRandomAsm = 0", shard=max(200, len(traces) // 16 + 1), spec="TraceSpec")
    n = C.report(run, "C06", jr["V"], {t["tid"]: t for t in traces})
    src = {}
    for t in traces:
        k = t["src"].split("/")[0]
        src[k] = src.get(k, 0) + 1
    cov = {
        "states": states, "transitions": gen, "traces_validated_against_impl": jr["judged"], "exhaustive": False,
        "evaluations": len(traces), "distinct_nontrivial": sum(1 for t in traces if len(t["lines"]) > 1),
        "rule": "every AGP text written while (a) formatting the C05 universe, (b) remapping valid PretextView scenarios (cut, reversed, fused scaffolds; all "
                "output assemblies) and tagged maps of two-haplotype assemblies, (b2) the AGP files written by the pretext-to-asm command line for tagged maps of two- and "
                "three-haplotype assemblies (Primary mode included), (c) indexing FASTA files of the bounded universe with a 2-residue buffer (.agp cache read back from disk), (d) the pretext-to-asm CLI writing "
                "FASTA + companion AGP with stream buffers 7 / 64 / 250000 (object length = length of the record written); TLC evaluates AgpTpf!AgpValid and the "
                "object-length clause on each; non-trivial = more than one line",
        "agp_texts_by_source": src, "agp_lines": sum(len(t["lines"]) for t in traces),
        "samples": [traces[0], traces[len(traces) // 2], traces[-1]], "known_findings_seen": run.known,
    }
    C.write_evidence(run, "C06", cov, assumptions=["numeric AGP columns are converted to integers by the harness, which checks that str(int(x)) == x",
                     "expected object lengths are the sums of the row lengths of the scaffold object passed to the writer / the FASTA record length",
                     "the AGP beside a FASTA written by the pretext-to-asm CLI is judged by the CLI engine (C16) scenarios", "TLC + Json trusted"])
    C.finish(run, "C06", n)
