"""C04 - FASTA index and derived assembly describe the file exactly.  Spec: Fasta.tla parts 1-3, FastaTrace.tla."""
from harness import common as C
from harness import fasta_engine as E

OPTS = {"idx_all_B": True, "reads": True, "derived": True, "disk": True}
RULE = ("every FASTA file of the bounded universe (records x residues over a small alphabet x line widths x LF/CRLF x final newline present/absent), "
        "exported by TLC from Fasta!Files; each is indexed by the real index_fasta_file under every buffer size, every interval of every record is "
        "read through sequence_bytes, and the derived assembly is streamed back; plus duplicate-name / empty files")


def main(tier, replay=None):
    run = C.Run("C04", tier)
    if replay:
        traces, jr = E.replay_one(run, tier, replay, OPTS, ())
        C.finish(run, "C04", C.report(run, "C04", jr["V"], {t["tid"]: t for t in traces}))
    mcs, traces, jr = E.engine(run, tier, "C04", OPTS, ("index",), extra_kinds=("reject",))
    n = C.report(run, "C04", jr["V"], {t["tid"]: t for t in traces})
    for m in jr["M"][:5]:
        print(f"MODEL-DRIFT action={m[2]} trace={m[1]} detail={m[3]}")
    cov = E.coverage(mcs, traces, jr, RULE)
    cov["known_findings_seen"] = run.known
    C.write_evidence(run, "C04", cov, assumptions=["TLC + Json trusted", "file bytes are built by harness/fasta_engine.py file_bytes from the TLC record "
                     "(header length asserted)", "residues enter TLA+ as one-character strings", "exhaustive inside the stated bounds only"])
    C.finish(run, "C04", n)
