"""Deterministic file-operation scheduler for C15.

"Processes" are threads inside one Python process; io.open / builtins.open / os.open / os.stat / os.replace /
os.rename / os.unlink / os.remove are replaced by wrappers that turn every operation on a path under the sandbox
directory into a scheduling point: a baton lets exactly one thread run until its next file operation.  Files opened for
writing are wrapped so that every write() and close() is a scheduling point followed by flush() (completed writes
persist) and by setting the file's mtime to the logical clock.  crash(p) abandons a thread at its current point: every
further intercepted operation of that thread raises before it is performed.

The scheduler is independent of the protocol the code uses; it only sees file operations.
"""
import builtins
import hashlib
import io
import json
import os
import threading


class Crash(BaseException):
    pass


class SchedTimeout(Exception):
    pass


STEP_TIMEOUT = 15.0


class Sched:
    def __init__(self, root, fasta_name):
        self.root = str(root)
        self.fa = fasta_name
        self.cv = threading.Condition()
        self.turn = None
        self.threads = {}
        self.state = {}      # pid -> (kind, value) once finished
        self.pending = {}    # pid -> (op, path)
        self.events = []
        self.clock = 1
        self.crashed = set()
        self.fdpath = {}
        self.ended = {}
        self.fver = 1
        self.flushy = True   # True: every write() reaches the file at once; False: data stays buffered until close() and is lost by a crash
        self.real = dict(io_open=io.open, b_open=builtins.open, os_open=os.open, stat=os.stat, replace=os.replace,
                         rename=os.rename, unlink=os.unlink, remove=os.remove)

    # ---------------------------------------------------------------- helpers
    def mine(self, path):
        try:
            return os.fspath(path).startswith(self.root + os.sep)
        except TypeError:
            return False

    def me(self):
        return getattr(threading.current_thread(), "pid_", None)

    def fclass(self, path):
        b = os.path.basename(os.fspath(path))
        if b == self.fa:
            return "fa"
        if b == self.fa + ".fai":
            return "fai"
        if b == self.fa + ".agp":
            return "agp"
        if b.startswith(self.fa + ".fai"):
            return "tmpfai"
        if b.startswith(self.fa + ".agp"):
            return "tmpagp"
        return "other"

    def log(self, p, op, f="", ex=0, mt=0, **kw):
        e = {"p": p, "op": op, "f": f, "ex": ex, "mt": mt, "fver": self.fver, "kind": "", "idx": "", "asm": "", "fai": "", "agp": "",
             "solo": 0, "clock": self.clock, "k": 0}
        e.update(kw)
        self.events.append(e)

    def yield_point(self, op, path):
        p = self.me()
        if p is None:
            return
        if p in self.crashed:
            raise Crash()
        with self.cv:
            self.pending[p] = (op, os.fspath(path))
            self.turn = None
            self.cv.notify_all()
            while self.turn != p and self.turn != "__all__":
                self.cv.wait()
            if p in self.crashed or self.turn == "__all__":
                raise Crash()

    def touch(self, path):
        try:
            os.utime(path, (self.clock, self.clock))
        except OSError:
            pass

    # ---------------------------------------------------------------- patched functions
    def p_open(self, file, mode="r", *a, **k):
        p = self.me()
        if p is None:
            return self.real["io_open"](file, mode, *a, **k)
        if isinstance(file, int):
            path = self.fdpath.get(file)
            f = self.real["io_open"](file, mode, *a, **k)
            if path is not None and any(c in mode for c in "wxa+"):
                return WFile(f, self, path)
            return f
        if not self.mine(file):
            return self.real["io_open"](file, mode, *a, **k)
        writing = any(c in mode for c in "wxa+")
        self.yield_point("open_w" if writing else "open_r", file)
        try:
            f = self.real["io_open"](file, mode, *a, **k)
        except OSError as e:
            self.log(p, "open_w" if writing else "open_r", self.fclass(file), ex=0, kind=type(e).__name__)
            raise
        self.log(p, "open_w" if writing else "open_r", self.fclass(file), ex=1)
        if writing:
            self.touch(file)
            return WFile(f, self, os.fspath(file))
        return f

    def p_os_open(self, path, flags, *a, **k):
        p = self.me()
        if p is None or not self.mine(path):
            return self.real["os_open"](path, flags, *a, **k)
        writing = bool(flags & (os.O_WRONLY | os.O_RDWR))
        self.yield_point("open_w" if writing else "open_r", path)
        fd = self.real["os_open"](path, flags, *a, **k)
        self.log(p, "open_w" if writing else "open_r", self.fclass(path), ex=1)
        if writing:
            self.fdpath[fd] = os.fspath(path)
            self.touch(path)
        return fd

    def p_stat(self, path, *a, **k):
        p = self.me()
        if p is None or not self.mine(path):
            return self.real["stat"](path, *a, **k)
        self.yield_point("stat", path)
        try:
            st = self.real["stat"](path, *a, **k)
        except OSError:
            self.log(p, "stat", self.fclass(path), ex=0)
            raise
        self.log(p, "stat", self.fclass(path), ex=1, mt=int(st.st_mtime))
        return st

    def p_replace(self, src, dst, *a, **k):
        p = self.me()
        if p is None or not self.mine(dst):
            return self.real["replace"](src, dst, *a, **k)
        self.yield_point("replace", dst)
        r = self.real["replace"](src, dst, *a, **k)
        self.log(p, "replace", self.fclass(dst), ex=1, kind=self.fclass(src))
        return r

    def p_rename(self, src, dst, *a, **k):
        p = self.me()
        if p is None or not self.mine(dst):
            return self.real["rename"](src, dst, *a, **k)
        self.yield_point("replace", dst)
        r = self.real["rename"](src, dst, *a, **k)
        self.log(p, "replace", self.fclass(dst), ex=1, kind=self.fclass(src))
        return r

    def p_unlink(self, path, *a, **k):
        p = self.me()
        if p is None or not self.mine(path):
            return self.real["unlink"](path, *a, **k)
        self.yield_point("unlink", path)
        r = self.real["unlink"](path, *a, **k)
        self.log(p, "unlink", self.fclass(path), ex=1)
        return r

    def install(self):
        io.open = self.p_open
        builtins.open = self.p_open
        os.open = self.p_os_open
        os.stat = self.p_stat
        os.replace = self.p_replace
        os.rename = self.p_rename
        os.unlink = self.p_unlink
        os.remove = self.p_unlink

    def uninstall(self):
        io.open = self.real["io_open"]
        builtins.open = self.real["b_open"]
        os.open = self.real["os_open"]
        os.stat = self.real["stat"]
        os.replace = self.real["replace"]
        os.rename = self.real["rename"]
        os.unlink = self.real["unlink"]
        os.remove = self.real["remove"]

    # ---------------------------------------------------------------- driver side
    def _wait(self, cond):
        if not self.cv.wait_for(cond, timeout=STEP_TIMEOUT):
            raise SchedTimeout()

    def spawn(self, pid, fn):
        """start process `pid`; returns when it is blocked before its first file operation"""
        self.state.pop(pid, None)
        self.crashed.discard(pid)
        self.ended[pid] = False

        def run():
            threading.current_thread().pid_ = pid
            try:
                self.yield_point("start", self.root)
                val = fn()
                self.state[pid] = ("done", val)
            except Crash:
                self.state[pid] = ("crashed", None)
            except BaseException as e:  # noqa: BLE001
                self.state[pid] = ("error", type(e).__name__)
            finally:
                with self.cv:
                    self.pending.pop(pid, None)
                    self.turn = None
                    self.cv.notify_all()

        t = threading.Thread(target=run, daemon=True)
        self.threads[pid] = t
        t.start()
        with self.cv:
            self._wait(lambda: pid in self.pending or pid in self.state)
        self.log(pid, "begin")
        self.step(pid)  # consume the start pseudo-operation

    def alive(self, pid):
        return pid in self.pending

    def step(self, pid):
        """let pid perform its pending operation and run to its next scheduling point (or its end)"""
        with self.cv:
            if pid not in self.pending:
                return None
            op = self.pending.pop(pid)
            self.turn = pid
            self.cv.notify_all()
            self._wait(lambda: self.turn != pid)
        if pid in self.state:
            self.finish_event(pid)
        return op

    def crash(self, pid):
        if pid not in self.pending:
            return
        self.crashed.add(pid)
        self.log(pid, "crash")
        self.step(pid)

    def finish_event(self, pid):
        kind, val = self.state[pid]
        if self.ended.get(pid):
            return
        self.ended[pid] = True
        self.end_hook(pid, kind, val)

    def end_hook(self, pid, kind, val):
        self.log(pid, "end_" + kind)


class WFile:
    def __init__(self, f, s, path):
        self.f, self.s, self.path = f, s, path
        self.n = 0
        self.buf = []

    def write(self, data):
        self.s.yield_point("write", self.path)
        if self.s.flushy:
            n = self.f.write(data)
            self.f.flush()
            self.s.touch(self.path)
        else:
            self.buf.append(data)
            n = len(data)
        self.n += 1
        self.s.log(self.s.me(), "write", self.s.fclass(self.path), ex=1, k=self.n)
        return n

    def flush(self):
        pass

    def close(self):
        if self.f.closed:
            return
        self.s.yield_point("close", self.path)
        for data in self.buf:
            self.f.write(data)
        self.buf = []
        self.f.close()
        self.s.touch(self.path)
        self.s.log(self.s.me(), "close", self.s.fclass(self.path), ex=1)

    def __enter__(self):
        return self

    def __exit__(self, *a):
        self.close()

    def __getattr__(self, n):
        return getattr(self.f, n)


def digest(obj):
    return hashlib.sha1(json.dumps(obj, sort_keys=True, default=str).encode()).hexdigest()[:12]
