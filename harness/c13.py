"""C13 - streaming is buffer-size independent and memory-bounded.  Spec: Fasta.tla (held/maxheld, chunk iterators), FastaTrace.tla."""
from harness import common as C
from harness import fasta_engine as E

OPTS = {"idx_all_B": True, "derived": True, "multis": 3, "reverse": False}
RULE = ("every FASTA file of the bounded universe exported by TLC is indexed, and its derived assembly plus seeded multi-row assemblies streamed, under "
        "every buffer size in {1,2,3,5,inf}; TLC compares results across buffer sizes and checks the recorded maximum buffer / chunk / read sizes "
        "against B; four measurements (tracemalloc peak, chunk sizes) on a sequence, fragments and a gap 400 buffers long")


def main(tier, replay=None):
    run = C.Run("C13", tier)
    if replay:
        traces, jr = E.replay_one(run, tier, replay, OPTS, ())
        C.finish(run, "C13", C.report(run, "C13", jr["V"], {t["tid"]: t for t in traces}))
    mcs, traces, jr = E.engine(run, tier, "C13", OPTS, ("index", "stream"), extra_kinds=("mem",))
    n = C.report(run, "C13", jr["V"], {t["tid"]: t for t in traces})
    for m in jr["M"][:5]:
        print(f"MODEL-DRIFT action={m[2]} trace={m[1]} detail={m[3]}")
    cov = E.coverage(mcs, traces, jr, RULE)
    cov["known_findings_seen"] = run.known
    cov["memory_measurements"] = [t for t in traces if t["kind"] == "mem"]
    C.write_evidence(run, "C13", cov, assumptions=[
        "peak memory is measured with tracemalloc against calibrated bounds (4*(B+line)+64KiB indexing, 8*B+64KiB streaming); the state machine only "
        "states the bound (held <= B + line), the number comes from measurement", "buffer occupancy is observed by substituting a size-tracking BytesIO "
        "subclass for tola.fasta.index.BytesIO at run time", "TLC + Json trusted"])
    C.finish(run, "C13", n)
