"""C05 - AGP and TPF parse/format round-trip without loss.  Spec: AgpTpf.tla, AgpTpfScen.tla, AgpTpfTrace.tla."""
import json
import os

from harness import agp_engine as A
from harness import common as C

NRANDOM = {"quick": 4000, "thorough": 60000}


def main(tier, replay=None):
    run = C.Run("C05", tier)
    os.environ["VERIF_AGP_ROOT"] = str(run.sub("agp"))
    if replay:
        tr = json.load(open(replay))["trace"]
        if tr["kind"] == "afcli":
            # an asm-format command line scenario: the pool assemblies and resolved input formats are re-exported by TLC
            afx = C.export("AsmFormatCli", "INIT Init\nNEXT Next\nCHECK_DEADLOCK FALSE\nCONSTRAINT Emit\nCONSTANTS NRandomAsm = 0\n", run.dir, name="scen-afcli", timeout=600)
            traces = [A.run_afcli(dict(o, tid=1)) for o in afx["objs"] if o["sc"] == tr["sc"]][:1]
        elif tr["kind"] == "rt":
            traces = [A.run_rt({"tid": 1, "asm": tr["asm"], "big": tr["big"], "cli": 1})]
        else:
            traces = [t for t in A.corrupt_traces(1) if t["fmt"] == tr["fmt"] and t["what"] == tr["what"] and t["line"] == tr["line"]]
        jr = C.judge("AgpTpfTrace", traces, run.dir, consts="NRandomAsm = 0", spec="TraceSpec")
        C.finish(run, "C05", C.report(run, "C05", jr["V"], {t["tid"]: t for t in traces}))
    ex = A.export_universe(run, NRANDOM[tier])
    scen = [{"asm": a, "big": 0} for a in ex["objs"]] + [{"asm": a, "big": 1} for a in A.big_family()]
    for i, s in enumerate(scen, 1):
        s["tid"] = i
        s["cli"] = 1 if i % 10 == 0 or s["big"] else 0
    traces = C.pmap("harness.agp_engine", "run_rt", scen, chunk=200)
    # texts of more than 100 000 lines: a few TPF-expressible assemblies of the universe repeated thousands of times (agp_engine.run_many)
    import random
    rng = random.Random(C.seed() + 2)
    cand = []
    for a in ex["objs"]:
        if len(a["scaffolds"]) >= 2 and len({s["name"] for s in a["scaffolds"]}) == len(a["scaffolds"]):
            # made TPF-expressible: tags dropped, unknown strands made +, leading gap rows dropped
            scs = []
            for s in a["scaffolds"]:
                rows = [dict(r, tags=[], st=(r["st"] or 1) if r["k"] == "F" else 0) for r in s["rows"]]
                while rows and rows[0]["k"] == "G":
                    rows.pop(0)
                if rows:
                    scs.append({"name": s["name"], "rows": rows})
            if len(scs) >= 2 and sum(len(s["rows"]) for s in scs) >= 4:
                cand.append({"header": a["header"], "scaffolds": scs})
    many = []
    for a in rng.sample(cand, min(len(cand), 3 if tier == "quick" else 10)):
        nl = sum(len(s["rows"]) for s in a["scaffolds"])
        many.append({"asm": a, "K": 110000 // nl + 1, "tid": 0})
    tid = len(traces) + 1
    for m in many:
        m["tid"] = tid
        tid += 10
    for lst in C.pmap("harness.agp_engine", "run_many", many, chunk=1):
        traces += lst
    traces += A.corrupt_traces(tid)
    # the asm-format command line as a function of its arguments (AsmFormatCli.tla): every combination of input files / STDIN, extensions,
    # -i, -o, -f, -n of the bounded model, exported by TLC and run for real (model-drift clauses)
    afx = C.export("AsmFormatCli", "INIT Init\nNEXT Next\nCHECK_DEADLOCK FALSE\nCONSTRAINT Emit\nINVARIANT PoolOK\nCONSTANTS NRandomAsm = 0\n", run.dir, name="scen-afcli", timeout=600)
    afs = afx["objs"]
    if tier == "quick" and len(afs) > 1500:
        afs = rng.sample(afs, 1500)
    tid = max(t["tid"] for t in traces) + 1
    for k, o in enumerate(afs):
        o["tid"] = tid + k
    traces += C.pmap("harness.agp_engine", "run_afcli", afs, chunk=100)
    jr = C.judge("AgpTpfTrace", traces, run.dir, consts="NRandomAsm = 0", shard=max(200, len(traces) // 16 + 1), spec="TraceSpec")
    n = C.report(run, "C05", jr["V"], {t["tid"]: t for t in traces})
    for m in jr["M"][:5]:
        print(f"MODEL-DRIFT action={m[2]} trace={m[1]} detail={m[3]}")
    rts = [t for t in traces if t["kind"] == "rt"]
    cor = [t for t in traces if t["kind"] == "corrupt"]
    cov = {
        "states": ex["distinct"] + afx["distinct"], "transitions": ex["generated"] + afx["generated"], "traces_validated_against_impl": jr["judged"], "exhaustive": False,
        "evaluations": len(traces), "distinct_nontrivial": sum(1 for t in rts if len(t["asm"]["scaffolds"]) > 1 or len(t["asm"]["scaffolds"][0]["rows"]) > 0),
        "rule": "abstract assemblies of AgpTpf!Universe exported by TLC: every single-row scaffold over the row pool (6 tricky contig names x 4 coordinate pairs "
                "up to 2e9 x strands +,-,? x 0-2 tags; 4 gap types x 2 lengths) x 3 scaffold names x 3 header variants, plus seeded random assemblies of 1-3 "
                "scaffolds x 1-3 rows, plus 6 assemblies with coordinates of 10^12 (string tokens); each written and read back by the real AGP and TPF "
                "code (every 10th also through the asm-format CLI), plus line-level corruptions of a canonical text, plus a few of the assemblies repeated "
                "thousands of times so that the texts exceed 100 000 lines (cut back into periods; period 1 and every period that differs from it are judged)",
        "asm_format_cli_scenarios_in_model": afx["distinct"], "asm_format_cli_runs": len(afs),
        "many_line_texts": len(many), "many_line_periods_judged": sum(1 for t in traces if t.get("periods")),
        "round_trip_traces": len(rts), "corrupted_line_traces": len(cor), "corruptions_that_raise": sum(1 for t in cor if t["exc"]),
        "tpf_expressible": sum(1 for t in rts if t["tpf_exc"] == ""), "through_cli": sum(1 for s in scen if s["cli"]),
        "model_drift": len(jr["M"]), "model_conformant": len(jr["M"]) == 0,
        "samples": [rts[len(rts) // 3], cor[0]], "known_findings_seen": run.known,
    }
    C.write_evidence(run, "C05", cov, assumptions=[
        "domain restrictions read off the statement and the formats: adjacent scaffolds have distinct names, header lines are non-empty and do not start with "
        "'#' or white space, names and tags carry no tab/newline/trailing white space and scaffold names do not start with '#'",
        "texts are split into lines and tab-separated fields by the harness and re-joined to verify the split is lossless", "TLC + Json trusted"])
    C.finish(run, "C05", n)
