"""C09 - tags route sequence to the documented destination assembly.  See harness/remap_checks.py, spec/PretextView.tla (tag gestures),
spec/RemapProps.tla (PieceDest, RoutedByTag, AbsentRouted)."""
from harness.remap_checks import main_for


def main(tier, replay=None):
    main_for("C09", tier, replay)
