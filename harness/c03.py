"""C03 - FASTA output is exactly the output AGP applied to the input FASTA.  Spec: Fasta.tla parts 1 and 4, FastaTrace.tla.
The end-to-end clause runs the real pretext-to-asm CLI (FASTA in, FASTA + AGP out, stream buffers 7 / 64 / 250000) and judges every written
record as the stream of the rows its companion AGP lists over the input FASTA (harness/cli_engine.py cli_fasta_case)."""
from harness import common as C
from harness import fasta_engine as E

OPTS = {"derived": True, "singles": True, "multis": 4, "reverse": False, "strand0_rows": True}
RULE = ("every FASTA file of the bounded universe exported by TLC; over each: the derived assembly, every single-row assembly (every interval x strands "
        "+, -, unknown) and seeded multi-row assemblies with gaps of 0..3 buffers (and their real reversals) are streamed by the real FastaStream under "
        "buffer sizes 1,2,3,5,inf and line lengths 60,1,2,3; TLC compares the recorded lines with Wrap(Expected(rows))")


def main(tier, replay=None):
    run = C.Run("C03", tier)
    if replay:
        traces, jr = E.replay_one(run, tier, replay, OPTS, ())
        C.finish(run, "C03", C.report(run, "C03", jr["V"], {t["tid"]: t for t in traces}))
    mcs, traces, jr = E.engine(run, tier, "C03", OPTS, ("stream",), extra_kinds=("cli",))
    n = C.report(run, "C03", jr["V"], {t["tid"]: t for t in traces})
    for m in jr["M"][:5]:
        print(f"MODEL-DRIFT action={m[2]} trace={m[1]} detail={m[3]}")
    cov = E.coverage(mcs, traces, jr, RULE)
    cov["known_findings_seen"] = run.known
    C.write_evidence(run, "C03", cov, assumptions=["TLC + Json trusted", "streamed bytes are split into lines at LF by the harness; residues enter TLA+ as "
                     "one-character strings", "exhaustive inside the stated bounds; multi-row assemblies are seeded samples"])
    C.finish(run, "C03", n)
