"""C17 - outputs are a deterministic function of the input files.  Spec: Determinism.tla (histories), DeterminismTrace.tla.
Each history exported by TLC is executed for real: fresh sub-processes under PYTHONHASHSEED / cwd / cache state, or consecutive
in-process invocations; every run's output digests are compared by TLC with the canonical cold run of the same input."""
import glob
import json
import os
import random
import shutil
import tempfile
from pathlib import Path

from harness import cli_engine as E
from harness import common as C

INPUTS = ["single", "multi", "twohap", "cut", "threehap"]
PLANS = {
    "quick": dict(proc_runs=2, proc_cap=150, inproc_runs=3, inproc_cap=400, seeds=["0", "1", "random"], spec_seeds=["1", "random"], slot_cap=80),
    "thorough": dict(proc_runs=3, proc_cap=600, inproc_runs=3, inproc_cap=819, seeds=["0", "1", "2", "random"], spec_seeds=["1", "2", "3", "random"], slot_cap=625),
}


def asm_rows(outdir):
    """output assemblies row for row, independent of the output format (AGP companion of FASTA, AGP or TPF files)"""
    res = {}
    for p in sorted(Path(outdir).iterdir()):
        if p.suffix not in (".agp", ".tpf"):
            continue
        rows = []
        for line in p.read_text().splitlines():
            f = line.split("\t")
            if not line.strip() or line.startswith("#"):
                continue
            if p.suffix == ".agp":
                rows.append(("G", f[0], f[5], f[6]) if f[4] in ("U", "N") else ("F", f[0], f[5], f[6], f[7], f[8]))
            elif f[0] == "GAP":
                rows.append(("G", "", f[2], {"TYPE-2": "scaffold", "TYPE-3": "contig"}.get(f[1], f[1].lower())))
            else:
                nm, se = f[1].rsplit(":", 1)
                s, e = se.split("-")
                rows.append(("F", f[2], nm, s, e, {"PLUS": "+", "MINUS": "-"}.get(f[3], "?")))
        # the scaffold a TPF gap belongs to is the one of the preceding fragment
        last = ""
        norm = []
        for r in rows:
            if r[0] == "F":
                last = r[1]
                norm.append(r)
            else:
                norm.append(("G", r[1] or last, r[2], r[3]))
        res[p.name[: -len(p.suffix)]] = norm
    return E.sha(json.dumps(res, sort_keys=True).encode())


def one_run(base, inp, fmt, seed, cwd, cache, buf, k, inproc, slot=False):
    """execute one run; returns (exit, files digest, asm digest)"""
    base = Path(base)
    ind = base / "inp" / ("slot" if slot else inp)
    if slot:
        # one path for every input: the files are replaced when the input changes (the cache files beside the FASTA are left as they are)
        import time
        ind.mkdir(parents=True, exist_ok=True)
        mark = ind / "holds"
        if not mark.exists() or mark.read_text() != inp:
            time.sleep(0.02)
            fa, agp = E.cfg_inputs(inp)
            (ind / "in.fa").write_text(fa)
            (ind / "p.agp").write_text(agp)
            mark.write_text(inp)
    elif not ind.exists():
        ind.mkdir(parents=True)
        if inp.startswith("spec:"):
            d = C.REPO / "tests" / "data" / inp[5:]
            shutil.copy(glob.glob(str(d / "*-input*.tpf"))[0], ind / "in2.tpf")
            shutil.copy(glob.glob(str(d / "*-pretext*.agp"))[0], ind / "p.agp")
        else:
            for f in ("fa", "agp", "tpf"):
                E.write_inputs(ind, inp, f)
            for f in (ind / "in.fa.fai", ind / "in.fa.agp"):
                f.unlink(missing_ok=True)
    asm_p = ind / ("in.fa" if fmt == "fa" else "in2." + fmt)
    if cache == "clear":
        for f in (ind / "in.fa.fai", ind / "in.fa.agp"):
            f.unlink(missing_ok=True)
    out = base / f"out{k}"
    out.mkdir()
    ofmt = "fa" if fmt == "fa" else "tpf"
    if cwd == "rel":
        wd = str(base)
        args = ["-a", os.path.relpath(asm_p, base), "-p", os.path.relpath(ind / "p.agp", base), "-o", os.path.relpath(out / f"x.2.{ofmt}", base)]
    else:
        wd = "/"
        args = ["-a", asm_p, "-p", ind / "p.agp", "-o", out / f"x.2.{ofmt}"]
    if inproc:
        import tola.fasta.index as index
        old = index.FastaIndex.__init__.__defaults__
        index.FastaIndex.__init__.__defaults__ = (buf,)
        try:
            rc, text, exc = E.run_inproc(args)
        finally:
            index.FastaIndex.__init__.__defaults__ = old
    else:
        rc, text, exc = E.run_subproc(args, env={"PYTHONHASHSEED": seed}, cwd=wd)
    files = E.snapshot(out, norm=[str(out), str(ind), os.path.relpath(out, base), os.path.relpath(ind, base)])
    if slot:
        # the log of a run that finds a stale cache says so (three more lines): the log is left out of the comparison for these histories
        files = {n: d for n, d in files.items() if not n.endswith(".log")}
    return rc, E.sha(json.dumps(files, sort_keys=True).encode()), asm_rows(out)


def run_history(sc):
    base = tempfile.mkdtemp(prefix="c17-", dir=sc["root"])
    runs = []
    for k, r in enumerate(sc["hist"], 1):
        try:
            rc, files, asm = one_run(base, r["inp"], r["fmt"], r["seed"], r["cwd"], r["cache"], r["buf"], k, sc["mode"] in ("inproc", "inslot"),
                                     slot=sc["mode"] == "inslot")
        except Exception as e:  # noqa: BLE001
            rc, files, asm = 97, "exc:" + type(e).__name__, ""
        ref = sc["refs"][r["inp"] + ("/slot" if sc["mode"] == "inslot" else "/" + r["fmt"])]
        runs.append(dict(r, exit=rc, files=files, asm=asm, ref_files=ref[1], ref_asm=sc["refs"][r["inp"] + "/*"]))
    shutil.rmtree(base, ignore_errors=True)
    return {"tid": sc["tid"], "mode": sc["mode"], "runs": runs}


def reference(job):
    root, inp, fmt = job
    base = tempfile.mkdtemp(prefix="c17ref-", dir=root)
    rc, files, asm = one_run(base, inp, fmt, "0", "abs", "clear", 250000, 1, False)
    shutil.rmtree(base, ignore_errors=True)
    nolog = ""
    if fmt == "fa" and not inp.startswith("spec:"):
        # the same canonical run digested without its log file (reference of the in-slot histories)
        base = tempfile.mkdtemp(prefix="c17ref-", dir=root)
        ind = Path(base) / "inp" / "slot"
        _, nolog, _ = one_run(base, inp, fmt, "0", "abs", "clear", 250000, 1, False, slot=True)
        shutil.rmtree(base, ignore_errors=True)
    return inp, fmt, rc, files, asm, nolog


def export(run, mode, maxruns, fmts, name):
    cfg = (f'SPECIFICATION Spec\nCHECK_DEADLOCK FALSE\nCONSTRAINT Emit\nINVARIANT Deterministic\nINVARIANT FormatIndependent\nCONSTANTS Inputs = {{"single", "multi", "twohap", "cut", "threehap"}} '
           f'Formats = {{{", ".join(chr(34) + f + chr(34) for f in fmts)}}} Seeds = {{"0", "1", "random"}} Dirs = {{"abs", "rel"}} Bufs = {{250000, 7}} Seed0 = "0" Dir0 = "abs" Buf0 = 250000 '
           f'MaxRuns = {maxruns} Mode = "{mode}"\n')
    r = C.tlc_ok(C.tlc("Determinism", cfg, run.dir, name=name, workers=1, timeout=1200), "Determinism export")
    return [h for h in C.emitted(r["out"]) if isinstance(h, list) and h], r


def main(tier, replay=None):
    run = C.Run("C17", tier)
    plan = PLANS[tier]
    root = str(run.sub("cli"))
    rng = random.Random(C.seed())
    specimens = ["spec:" + os.path.basename(d.rstrip("/")) for d in sorted(glob.glob(str(C.REPO / "tests" / "data") + "/*/"))]
    jobs = [(root, i, f) for i in INPUTS for f in ("fa", "agp", "tpf")] + [(root, s, "tpf") for s in specimens]
    refs = {}
    for inp, fmt, rc, files, asm, nolog in C.pmap("harness.c17", "reference", jobs, chunk=1):
        if rc != 0:
            raise C.Machinery(f"reference run failed for {inp}/{fmt} (exit {rc})")
        refs[inp + "/" + fmt] = (rc, files, asm)
        if nolog:
            refs[inp + "/slot"] = (rc, nolog, asm)
    for i in INPUTS:
        refs[i + "/*"] = refs[i + "/fa"][2]
    for s in specimens:
        refs[s + "/*"] = refs[s + "/tpf"][2]
    if replay:
        tr = json.load(open(replay))["trace"]
        hist = [{k: r[k] for k in ("inp", "fmt", "seed", "cwd", "cache", "buf")} for r in tr["runs"]]
        traces = [run_history({"tid": 1, "mode": tr["mode"], "hist": hist, "root": root, "refs": refs})]
        jr = C.judge("DeterminismTrace", traces, run.dir, spec="TraceSpec")
        C.finish(run, "C17", C.report(run, "C17", jr["V"], {1: traces[0]}))
    hp, rp = export(run, "proc", plan["proc_runs"], ["fa", "agp", "tpf"], "det-proc")
    hi, ri = export(run, "inproc", plan["inproc_runs"], ["fa", "agp", "tpf"], "det-inproc")
    if len(hp) > plan["proc_cap"]:
        hp = rng.sample(hp, plan["proc_cap"])
    if len(hi) > plan["inproc_cap"]:
        hi = rng.sample(hi, plan["inproc_cap"])
    hs, rs = export(run, "inslot", 4, ["fa"], "det-inslot")
    if len(hs) > plan["slot_cap"]:
        hs = rng.sample(hs, plan["slot_cap"])
    scen = [{"mode": "proc", "hist": h} for h in hp] + [{"mode": "inproc", "hist": h} for h in hi] + [{"mode": "inslot", "hist": h} for h in hs]
    # the 12 real specimens under other hash seeds
    for s in specimens:
        for sd in plan["spec_seeds"]:
            scen.append({"mode": "proc", "hist": [{"inp": s, "fmt": "tpf", "seed": sd, "cwd": "abs", "cache": "clear", "buf": 250000}]})
    for t, s in enumerate(scen, 1):
        s.update(tid=t, root=root, refs=refs)
    traces = C.pmap("harness.c17", "run_history", scen, chunk=2)
    jr = C.judge("DeterminismTrace", traces, run.dir, spec="TraceSpec", shard=200)
    n = C.report(run, "C17", jr["V"], {t["tid"]: t for t in traces})
    nruns = sum(len(t["runs"]) for t in traces)
    cov = {
        "states": rp["distinct"] + ri["distinct"] + rs["distinct"], "transitions": rp["generated"] + ri["generated"] + rs["generated"], "traces_validated_against_impl": jr["judged"],
        "exhaustive": False, "evaluations": nruns, "distinct_nontrivial": len({json.dumps(s["hist"]) for s in scen if len(s["hist"]) > 1}) + len(specimens),
        "rule": "histories exported by TLC from Determinism.tla: (proc) a canonical cold run followed by runs of the same input under any hash seed in "
                "{0,1,random}, relative/absolute paths with another working directory, cache kept or cleared, input as FASTA/AGP/TPF - every run a fresh "
                "process; (inproc) every sequence of 3 in-process invocations over the inputs x 3 formats x 2 buffer sizes; (inslot) sequences of 4 in-process "
                "invocations whose FASTA input is written to one and the same path, replaced when the input changes; seeded samples of the sets are "
                "executed, plus the 12 specimens under further hash seeds; every run's digests are compared with the canonical run's",
        "histories_in_model": {"proc": rp["distinct"], "inproc": ri["distinct"], "inslot": rs["distinct"]}, "histories_executed": {"proc": len(hp), "inproc": len(hi), "inslot": len(hs), "specimens": len(specimens) * len(plan["spec_seeds"])},
        "runs_executed": nruns, "reference_runs": len(jobs),
        "samples": [traces[0], traces[len(hp) + 1]], "known_findings_seen": run.known,
    }
    C.write_evidence(run, "C17", cov, assumptions=[
        "the model is thin: it organises which histories are executed; the verdict is equality of digests of real output files",
        "log files are compared after replacing the output / input directory names", "PYTHONHASHSEED=random covers one random seed per run",
        "output assemblies are compared row for row through a 25-line AGP/TPF reader in harness/c17.py"])
    C.finish(run, "C17", n)
