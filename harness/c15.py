"""C15 - a stale, partial or concurrently rewritten index cache is never silently used.
Spec: IndexCache.tla (file system + processes + crash + history), IndexCacheTrace.tla (judge + trace acceptance).
TLC behaviours (one shortest schedule per distinct quiet model state) are replayed into the real
FastaIndex.auto_load under harness/sched.py; the recorded file-operation traces are validated by TLC."""
import json
import os
import random
import shutil
import tempfile
from pathlib import Path

from harness import common as C
from harness import sched as S

FASTA = {1: b">s1\nACGTNNAC\nGT\n>s2\nACGT\n", 2: b">s1\nACGTACAC\nGT\n>t2\nACNNGT\n"}
FA = "x.fa"

TIERS = {
    "quick": dict(
        export=[("seq", '{"p1"}', 4, 2, 0, "FALSE", "TRUE", 3), ("crash", '{"p1"}', 4, 2, 0, "TRUE", "TRUE", 3),
                ("race", '{"p1", "p2"}', 2, 1, 2, "FALSE", "FALSE", 3)],
        mc=[("seq", '{"p1"}', 4, 2, 0, "FALSE", "TRUE", 3), ("crash", '{"p1"}', 3, 2, 0, "TRUE", "TRUE", 3),
            ("race", '{"p1", "p2"}', 2, 1, 2, "FALSE", "FALSE", 3)],
        cap=3000, ciw="ends"),
    "thorough": dict(
        export=[("seq", '{"p1"}', 4, 2, 0, "FALSE", "TRUE", 4), ("crash", '{"p1"}', 4, 2, 0, "TRUE", "TRUE", 3),
                ("race", '{"p1", "p2"}', 2, 1, 3, "FALSE", "FALSE", 3), ("race3", '{"p1", "p2", "p3"}', 2, 1, 2, "FALSE", "FALSE", 3),
                # (two runs, one context switch: 485 k states / 400 MB of behaviours; with two switches and three starts the export outgrew the machine)
                ("racecrash", '{"p1", "p2"}', 3, 2, 1, "TRUE", "TRUE", 2)],
        mc=[("seq", '{"p1"}', 4, 2, 0, "FALSE", "TRUE", 4), ("crash", '{"p1"}', 4, 2, 0, "TRUE", "TRUE", 3),
            ("race3", '{"p1", "p2", "p3"}', 2, 1, 3, "FALSE", "FALSE", 3), ("racecrash", '{"p1", "p2"}', 4, 2, 2, "TRUE", "TRUE", 3)],
        cap=25000, ciw="all"),
}


def cfg_text(procs, nbf, nba, maxclock, maxver, proto, maxswitch, crash, hist, starts, props=True, emit=False, ciw="all"):
    t = ("SPECIFICATION Spec\nCONSTANTS Procs = %s NBfai = %d NBagp = %d MaxClock = %d MaxVer = %d Protocol = \"%s\" MaxSwitch = %d "
         "AllowCrash = %s AllowHistory = %s MaxStarts = %d StrictNewer = TRUE FlushModes = {TRUE, FALSE} CrashInWrites = \"%s\"\nVIEW View\nCHECK_DEADLOCK FALSE\n"
         % (procs, nbf, nba, maxclock, maxver, proto, maxswitch, crash, hist, starts, ciw))
    if props:
        t += "PROPERTY CacheSafe\nPROPERTY RebuildBoth\nINVARIANT PublishedComplete\n"
    if emit:
        t += "CONSTRAINT Emit\n"
    return t


# ------------------------------------------------------------------------------------------------- real execution
class Box:
    """one sandbox directory per worker process"""
    inst = None
    pid = None

    def __init__(self):
        self.root = Path(tempfile.mkdtemp(prefix="c15box-", dir=os.environ.get("VERIF_C15_ROOT")))
        self.fa = self.root / FA
        self.truth = {}
        for ver, content in FASTA.items():
            self.clean()
            self.fa.write_bytes(content)
            self.truth[ver] = self.compute_truth()
        self.clean()

    def clean(self):
        for f in list(self.root.iterdir()):
            try:
                if f.is_dir() and not f.is_symlink():
                    shutil.rmtree(f, ignore_errors=True)
                else:
                    f.unlink()
            except FileNotFoundError:
                pass

    def compute_truth(self):
        from tola.fasta.index import FastaIndex, index_fasta_file
        idx, asm = index_fasta_file(self.fa, 7)
        fi = FastaIndex(self.fa, 7)
        fi.index, fi.assembly = idx, asm
        fi.write_index()
        fi.write_assembly()
        t = {"idx": proj_index(idx), "asm": proj_asm(asm), "fai": S.digest(fi.fai_file.read_bytes().decode()),
             "agp": S.digest(fi.agp_file.read_bytes().decode())}
        fi.fai_file.unlink()
        fi.agp_file.unlink()
        return t


def proj_index(idx):
    return S.digest({k: [v.length, v.file_offset, v.residues_per_line, v.max_line_length] for k, v in idx.items()})


def proj_asm(asm):
    return S.digest([asm.name, list(asm.header), [[s.name, [str(r) for r in s.rows]] for s in asm.scaffolds]])


def file_digest(p):
    try:
        return S.digest(open(p, "rb").read().decode(errors="replace"))
    except OSError:
        return "absent"


def replay(sc):
    """Execute one schedule (list of [kind, arg] tokens) against the real code; returns the recorded trace."""
    import logging
    logging.disable(logging.CRITICAL)
    if Box.inst is None or Box.pid != os.getpid():
        Box.inst = Box()
        Box.pid = os.getpid()
    box = Box.inst
    box.clean()
    target = box.fa
    if sc.get("link"):
        # the FASTA path is a symbolic link (a staged input, as workflow managers make them); rewrites replace the file it points to
        (box.root / "store").mkdir()
        target = box.root / "store" / "genome.fa"
        os.symlink(target, box.fa)
    target.write_bytes(FASTA[1])
    os.utime(target, (1, 1))
    s = S.Sched(box.root, FA)
    conc = {}

    def job():
        from tola.fasta.index import FastaIndex
        fi = FastaIndex(box.fa, 7)
        fi.auto_load()
        return {"idx": proj_index(fi.index), "asm": proj_asm(fi.assembly)}

    def end_hook(pid, kind, val):
        kw = {"kind": kind}
        if kind == "done":
            kw.update(idx=val["idx"], asm=val["asm"])
        if kind == "error":
            kw["kind"] = "error:" + str(val)
        kw["fai"] = file_digest(str(box.fa) + ".fai")
        kw["agp"] = file_digest(str(box.fa) + ".agp")
        kw["solo"] = 0 if conc.get(pid) else 1
        s.log(pid, "end", **kw)

    s.end_hook = end_hook
    hang = 0
    s.install()
    try:
        try:
            for kind, arg in sc["tokens"]:
                if kind == "f":
                    s.flushy = arg == "1"
                elif kind == "b":
                    live = [q for q in s.pending]
                    conc[arg] = bool(live)
                    for q in live:
                        conc[q] = True
                    s.spawn(arg, job)
                elif kind == "s":
                    s.step(arg)
                elif kind == "c":
                    conc[arg] = True
                    s.crash(arg)
                elif kind == "t":
                    s.clock += 1
                    s.log("", "tick")
                elif kind == "r":
                    s.fver += 1
                    s.real["io_open"](target, "wb").write(FASTA[s.fver])
                    os.utime(target, (s.clock, s.clock))
                    s.log("", "rewrite")
                elif kind == "d":
                    try:
                        s.real["unlink"](str(box.fa) + "." + arg)
                    except OSError:
                        pass
                    s.log("", "delete", arg)
            # let whatever is still running finish, one process after the other
            for q in sorted(s.pending):
                n = 0
                while s.alive(q) and n < 500:
                    s.step(q)
                    n += 1
        except S.SchedTimeout:
            hang = 1
    finally:
        # threads that are still parked at a scheduling point are abandoned for good: any further operation of theirs raises
        with s.cv:
            for q in list(s.pending):
                s.crashed.add(q)
            s.turn = "__all__"
            s.cv.notify_all()
        for q, th in list(s.threads.items()):
            th.join(timeout=2.0)
        s.uninstall()
    return {"tid": sc["tid"], "cls": sc["cls"], "tokens": sc["tokens"], "events": s.events, "hang": hang, "flushy": 1 if s.flushy else 0,
            "truth": [box.truth[1], box.truth[2]]}


def dry_run():
    """cold auto_load, alone: which protocol does the code use and how many write calls per cache file?"""
    t = replay({"tid": 0, "cls": "dry", "tokens": [["b", "p1"]]})
    ev = t["events"]
    proto = "rename" if any(e["op"] == "replace" for e in ev) else "inplace"
    nbf = sum(1 for e in ev if e["op"] == "write" and e["f"] in ("fai", "tmpfai"))
    nba = sum(1 for e in ev if e["op"] == "write" and e["f"] in ("agp", "tmpagp"))
    return proto, nbf, nba, t


# ------------------------------------------------------------------------------------------------- main
def main(tier, replay_path=None):
    run = C.Run("C15", tier)
    cfg = TIERS[tier]
    os.environ["VERIF_C15_ROOT"] = str(run.sub("boxes"))
    proto, nbf, nba, dry = dry_run()
    if nbf < 1 or nba < 1:
        proto, nbf, nba = "inplace", max(nbf, 1), max(nba, 1)
    scen = []
    mcs = []
    if replay_path:
        tr = json.load(open(replay_path))["trace"]
        scen = [{"tokens": tr["tokens"], "cls": tr["cls"]}]
    else:
        # 1. design level: model check the protocol the code was observed to use (small block counts)
        for name, procs, mclk, mver, msw, crash, hist, starts in cfg["mc"]:
            r = C.tlc("IndexCache", cfg_text(procs, 2, 2, mclk, mver, proto, msw, crash, hist, starts), run.dir, name=f"MC_{name}",
                      timeout=3600)
            mcs.append({"config": name, "protocol": proto, "states": r["distinct"], "generated": r["generated"],
                        "design_holds": bool(r["completed"] and not r["violated"]), "violated": r["violated"], "wall_s": r["wall_s"]})
            if not r["completed"] and not r["violated"]:
                raise C.Machinery("model check " + name + " failed:\n" + r["out"][-2000:])
        # 2. behaviours: one shortest schedule per distinct quiet state, real block counts
        rng = random.Random(C.seed())
        for name, procs, mclk, mver, msw, crash, hist, starts in cfg["export"]:
            r = C.tlc_ok(C.tlc("IndexCache", cfg_text(procs, nbf, nba, mclk, mver, proto, msw, crash, hist, starts, props=False, emit=True, ciw=cfg["ciw"]),
                               run.dir, name=f"export_{name}", workers=1, timeout=3600), "behaviour export " + name)
            em = [h for h in C.emitted(r["out"]) if isinstance(h, dict) and h.get("h")]
            seen = set()
            risky, rest = [], []
            for e in em:
                k = json.dumps(e["h"])
                if k in seen:
                    continue
                seen.add(k)
                (risky if e["pri"] else rest).append(e["h"])
            mcs.append({"config": "export_" + name, "protocol": proto, "states": r["distinct"], "generated": r["generated"],
                        "behaviours": len(risky) + len(rest), "risky_behaviours": len(risky), "wall_s": r["wall_s"]})
            # all schedules in which a run loads the cache after a crash / FASTA rewrite (up to the cap), a seeded sample of the others
            if len(risky) > cfg["cap"]:
                risky = rng.sample(risky, cfg["cap"])
            room = max(cfg["cap"] // 3, cfg["cap"] - len(risky))
            if len(rest) > room:
                rest = rng.sample(rest, room)
            hs = risky + rest
            scen += [{"tokens": h, "cls": name} for h in hs]
    if not replay_path:
        # the same schedules with the FASTA path being a symbolic link to the file that is rewritten (a sample of those that rewrite it)
        rw = [x for x in scen if any(k == "r" for k, _ in x["tokens"])]
        rng2 = random.Random(C.seed() + 4)
        for x in rng2.sample(rw, min(len(rw), cfg["cap"] // 2)):
            scen.append({"tokens": x["tokens"], "cls": x["cls"] + "/symlinked-fasta", "link": 1})
    elif "symlinked-fasta" in scen[0]["cls"]:
        scen[0]["link"] = 1
    for i, s in enumerate(scen, 1):
        s["tid"] = i
    traces = C.pmap("harness.c15", "replay", scen, chunk=50)
    consts = (f'Procs = {{"p1", "p2", "p3"}} NBfai = {nbf} NBagp = {nba} MaxClock = 99 MaxVer = 2 Protocol = "{proto}" MaxSwitch = 99 '
              "AllowCrash = TRUE AllowHistory = TRUE MaxStarts = 99 StrictNewer = TRUE FlushModes = {TRUE, FALSE} CrashInWrites = \"all\"")
    jr = C.judge("IndexCacheTrace", traces, run.dir, consts=consts, shard=max(100, len(traces) // 16 + 1), spec="JudgeSpec")
    by = {t["tid"]: t for t in traces}
    n = C.report(run, "C15", jr["V"], by)
    # 3. conformance: is every recorded file-operation trace a behaviour of the model?
    ar = C.judge("IndexCacheTrace", traces, run.dir, consts=consts, shard=max(100, len(traces) // 16 + 1), spec="TraceSpec", label="accept")
    accepted = {a[1] for a in ar["M"] if a[2] == "accepted"}
    rejected = [t["tid"] for t in traces if t["tid"] not in accepted]
    for tid in rejected[:5]:
        print(f"MODEL-DRIFT action=trace-not-accepted trace={tid} cls={by[tid]['cls']}")
    ends = {}
    for t in traces:
        for e in t["events"]:
            if e["op"] == "end":
                ends[e["kind"].split(":")[0]] = ends.get(e["kind"].split(":")[0], 0) + 1
    cov = {
        "states": sum(m["states"] for m in mcs), "transitions": sum(m["generated"] for m in mcs),
        "traces_validated_against_impl": jr["judged"], "exhaustive": True,
        "evaluations": len(traces), "distinct_nontrivial": len({json.dumps(t["tokens"]) for t in traces if len(t["tokens"]) > 3}),
        "rule": "TLC explores IndexCache.tla (protocol as observed in a dry run of the code, block counts = the real number of write calls) and "
                "prints one shortest schedule for every distinct quiet state; each schedule (start/step/crash/tick/rewrite/delete tokens) is "
                "replayed into the real FastaIndex.auto_load under the deterministic file-operation scheduler",
        "protocol_observed": proto, "write_calls": {"fai": nbf, "agp": nba}, "model_runs": mcs,
        "schedules_replayed": len(traces), "by_class": {c: sum(1 for t in traces if t["cls"] == c) for c in {t["cls"] for t in traces}},
        "process_ends": ends, "hangs": sum(t["hang"] for t in traces),
        "traces_accepted_by_model": len(accepted), "model_drift": len(rejected), "model_conformant": not rejected,
        "design_holds": all(m.get("design_holds", True) for m in mcs),
        "samples": [dry["events"][:12], traces[len(traces) // 2]["tokens"]],
        "known_findings_seen": run.known,
    }
    C.write_evidence(run, "C15", cov, assumptions=[
        "processes are threads inside one Python process, interleaved at file-operation granularity; OS effects below that are outside the model",
        "mtimes are a logical clock set with os.utime by the scheduler", "TLC + Json trusted",
        "FASTA edits never race a running indexer (RewriteFasta requires a quiet system), as in the property's quantifier"])
    C.finish(run, "C15", n)
