"""Checks C01, C02, C07, C08, C11 on the remap engine: per property a plan of scenario classes (all exported by TLC from
PretextView.tla) and the clause set judged by TLC (RemapTrace.tla with Props = {pid})."""
import json
import random

from harness import common as C
from harness import remap_engine as R

# (class label, mode, MaxEdits, NRandom, MaxPerturb, cap per texel size or None)
PLANS = {
    "quick": {
        "C01": [("valid", "valid", 2, 2, 0, 9000), ("perturbed", "perturb", 1, 2, 1, 7000), ("valid-sim", "valid", 4, 2, 0, 300, "plain", [(100, 1)]),
                ("valid-cli-sim", "valid", 2, 2, 0, 1200), ("perturbed-cli-sim", "perturb", 1, 2, 1, 600), ("valid-hap-cli-sim", "valid", 2, 2, 0, 800, "hap"),
                ("tagged-hap3-cli-sim", "tagged", 3, 0, 0, 1500, "hap3"), ("tagperturb-hap-cli-sim", "tagperturb", 2, 0, 1, 1000, "hap")],
        "C02": [("valid", "valid", 2, 3, 0, 10000), ("valid-sim", "valid", 5, 3, 0, 2500), ("valid-sim", "valid", 4, 2, 0, 300, "plain", [(100, 1)]),
                ("valid-cli-sim", "valid", 2, 3, 0, 1200)],
        "C07": [("valid", "valid", 2, 3, 0, 12000), ("perturbed", "perturb", 1, 1, 1, 3000), ("valid-sim", "valid", 4, 2, 0, 300, "plain", [(100, 1)]),
                ("valid-cli-sim", "valid", 2, 3, 0, 1200), ("tagged-hap3-cli-sim", "tagged", 3, 0, 0, 1500, "hap3")],
        "C08": [("null", "null", 0, 400, 0, None)],
        "C11": [("valid", "valid", 2, 3, 0, 12000), ("valid-sim", "valid", 4, 2, 0, 300, "plain", [(100, 1)]), ("valid-cli-sim", "valid", 2, 3, 0, 2000),
                ("valid-hap-cli-sim", "valid", 2, 2, 0, 1500, "hap"), ("tagged-hap-cli-sim", "tagged", 3, 3, 0, 2000, "hap"), ("tagged-hap3-cli-sim", "tagged", 3, 2, 0, 1500, "hap3"),
                ("tagperturb-hap-cli-sim", "tagperturb", 2, 1, 1, 1500, "hap")],
        "C09": [("tagged-sim", "tagged", 3, 0, 0, 6000, "plain"), ("tagged-hap-sim", "tagged", 3, 0, 0, 6000, "hap"), ("tagged-hap3-sim", "tagged", 3, 0, 0, 3000, "hap3"), ("tagged-trio-sim", "tagged", 3, 0, 0, 2500, "trio"), ("tagged-trio-cli-sim", "tagged", 3, 0, 0, 1200, "trio"),
                ("tagged-cli-sim", "tagged", 3, 0, 0, 1500, "plain"), ("tagged-hap-cli-sim", "tagged", 3, 0, 0, 2000, "hap"), ("tagged-hap3-cli-sim", "tagged", 3, 0, 0, 2000, "hap3")],
    },
    "thorough": {
        "C01": [("valid", "valid", 2, 8, 0, 12000), ("perturbed", "perturb", 1, 4, 1, 6000), ("perturbed2-sim", "perturb", 1, 3, 2, 4000), ("valid-sim", "valid", 5, 4, 0, 8000),
                ("valid-sim", "valid", 4, 3, 0, 2400, "plain", [(100, 1)]), ("valid-cli-sim", "valid", 3, 6, 0, 5000), ("perturbed-cli-sim", "perturb", 2, 3, 1, 3000),
                ("valid-hap-cli-sim", "valid", 3, 4, 0, 4000, "hap"), ("tagged-hap3-cli-sim", "tagged", 3, 1, 0, 5000, "hap3"), ("tagperturb-hap-cli-sim", "tagperturb", 3, 1, 1, 5000, "hap")],
        "C02": [("valid", "valid", 2, 10, 0, 12000), ("valid-sim", "valid", 5, 4, 0, 12000), ("valid-sim", "valid", 4, 3, 0, 2400, "plain", [(100, 1)]),
                ("valid-cli-sim", "valid", 3, 6, 0, 5000)],
        "C07": [("valid", "valid", 2, 10, 0, 12000), ("perturbed", "perturb", 1, 2, 1, 5000), ("valid-sim", "valid", 4, 3, 0, 2400, "plain", [(100, 1)]),
                ("valid-cli-sim", "valid", 3, 6, 0, 5000), ("tagged-hap3-cli-sim", "tagged", 3, 1, 0, 5000, "hap3")],
        "C08": [("null", "null", 0, 3000, 0, None)],
        "C11": [("valid", "valid", 2, 10, 0, 12000), ("valid-sim", "valid", 5, 4, 0, 10000), ("valid-sim", "valid", 4, 3, 0, 2400, "plain", [(100, 1)]),
                ("valid-cli-sim", "valid", 3, 6, 0, 6000), ("valid-hap-cli-sim", "valid", 3, 4, 0, 5000, "hap"), ("tagged-hap-cli-sim", "tagged", 3, 3, 0, 8000, "hap"),
                ("tagged-hap3-cli-sim", "tagged", 3, 1, 0, 5000, "hap3"), ("tagperturb-hap-cli-sim", "tagperturb", 3, 1, 1, 5000, "hap")],
        "C09": [("tagged", "tagged", 3, 1, 0, 10000, "plain"), ("tagged-hap", "tagged", 3, 1, 0, 10000, "hap"), ("tagged-hap3", "tagged", 3, 0, 0, 10000, "hap3"),
                ("tagged4-sim", "tagged", 4, 1, 0, 10000, "hap"), ("tagged-trio-sim", "tagged", 3, 1, 0, 8000, "trio"), ("tagged-trio-cli-sim", "tagged", 3, 0, 0, 5000, "trio"),
                ("tagged-cli-sim", "tagged", 3, 1, 0, 6000, "plain"), ("tagged-hap-cli-sim", "tagged", 3, 1, 0, 6000, "hap"), ("tagged-hap3-cli-sim", "tagged", 3, 1, 0, 6000, "hap3")],
    },
}
# thorough tier: the exhaustive tagged state graphs are exported for four texel sizes, everything else for all eight
T4 = [(2, 1), (3, 2), (5, 3), (5, 1)]
TEXT = {
    "C01": "C01 conservation", "C02": "C02 layout within three texel widths", "C07": "C07 joins carry gaps",
    "C08": "C08 unedited map is the identity", "C11": "C11 curation statistics", "C09": "C09 tag routing",
}


def main_for(pid, tier, replay=None):
    run = C.Run(pid, tier)
    rng = random.Random(C.seed())
    if replay:
        tr = json.load(open(replay))["trace"]
        if tr.get("route") == "cli":
            sc = {k: tr[k] for k in ("tn", "td", "naming", "valid", "input", "map", "haps")}
            sc.update(tid=1, style=tr.get("style", "plain"), cls=tr["cls"].split("/", 1)[1], root=str(run.sub("cli")))
            traces = [R.run_scenario_cli(sc)]
        elif str(tr.get("cls", "")).startswith("cli/"):
            from harness import cli_engine
            traces = [cli_engine.cli_remap_case({"root": str(run.sub("cli")), "cfg": tr["cls"][4:], "tid": 1})]
        elif tr.get("cls") == "specimen":
            traces = [R.run_specimen({"specimen": tr["msg"], "tid": 1})]
        else:
            sc = {k: tr[k] for k in ("tn", "td", "naming", "valid", "input", "map", "cls", "haps")}
            sc["tid"] = 1
            sc["style"] = tr.get("style", "plain")
            traces = [R.run_scenario(sc)]
        jr = R.judge(run, traces, [pid])
        C.finish(run, pid, C.report(run, pid, jr["V"], {1: traces[0]}))
    scen = []
    exports = []
    sampled = False
    for plan in PLANS[tier][pid]:
        (label, mode, maxedits, nrandom, maxperturb, cap), style = plan[:6], (plan[6] if len(plan) > 6 else "plain")
        # (quick tier: the exhaustive state graphs are exported for 2/1, 3/2, 5/1; the simulated classes and the null maps also for 5/3)
        for tn, td in (plan[7] if len(plan) > 7 else (T4 if mode in ("tagged", "tagperturb") else R.TEXELS[tier]) if tier == "thorough"
                       else R.TEXELS[tier] if label.endswith("-sim") or mode == "null" else [x for x in R.TEXELS[tier] if x != (5, 3)]):
            keep = (lambda o: o["valid"] == 0) if mode in ("perturb", "tagperturb") else None
            # "-sim" classes: random edit scripts of up to maxedits gestures (TLC simulation mode, seeded) instead of the exhaustive state graph
            sim = (f"num={max(50, cap // 80)}" if label == "valid-sim" else f"num={max(50, cap // 20)}") if label.endswith("-sim") else None
            objs, r = R.export(run, f"pv-{label}-{tn}-{td}", tn, td, mode, maxedits, nrandom, maxperturb, cap=cap, rng=rng, keep=keep, style=style,
                               simulate=sim, workers=(1 if sim else 8))
            if cap and len(objs) == cap:
                sampled = True
            for o in objs:
                o["cls"] = label[:-4] if label.endswith("-sim") else label
                if "-cli" in label:
                    o["route"] = "cli"
                    o["root"] = str(run.sub("cli"))
            scen += objs
            exports.append({"class": label, "texel": f"{tn}/{td}", "mode": mode, "max_edits": maxedits, "random_shapes": nrandom, "max_perturb": maxperturb,
                            "model_states": r["distinct"], "model_transitions": r["generated"], "scenarios_used": len(objs), "wall_s": r["wall_s"]})
    # giant genomes: a sample of the valid maps with every base stretched to 2^25 bases (scaffolds of several Gbp, coordinates beyond 2^32);
    # the outputs are brought back to the fine grid before TLC judges them
    if pid in ("C01", "C02"):
        base = [x for x in scen if x.get("route") != "cli" and x["valid"] == 1 and x["cls"] == "valid"]
        for x in rng.sample(base, min(len(base), 400 if tier == "quick" else 4000)):
            scen.append(dict(x, giant=1))
    # a few perturbed (and valid) maps through the command line in a fresh interpreter with PYTHONOPTIMIZE=1
    if pid == "C01":
        base = [x for x in scen if x.get("route") == "cli" and not x.get("giant")]
        pert = [x for x in base if x["valid"] == 0]
        for x in rng.sample(pert, min(len(pert), 48 if tier == "quick" else 400)) + rng.sample(base, min(len(base), 16 if tier == "quick" else 100)):
            scen.append(dict(x, optimize=1))
    for i, s in enumerate(scen, 1):
        s["tid"] = i
    traces = C.pmap("harness.remap_engine", "run_scenario", [x for x in scen if x.get("route") != "cli"], chunk=300)
    # the same kind of scenario through the pretext-to-asm command line (files written, info yaml, log line)
    traces += C.pmap("harness.remap_engine", "run_scenario_cli", [x for x in scen if x.get("route") == "cli" and not x.get("optimize")], chunk=100)
    traces += C.pmap("harness.remap_engine", "run_scenario_cli", [x for x in scen if x.get("route") == "cli" and x.get("optimize")], chunk=4)
    traces.sort(key=lambda t: t["tid"])
    # the real specimens (row-level clauses only: conservation, adjacency, statistics); the two largest are left to the thorough tier
    if pid in ("C01", "C07", "C11"):
        import glob
        import os
        names = sorted(os.path.basename(d.rstrip("/")) for d in glob.glob(str(C.REPO / "tests" / "data") + "/*/"))
        small = [n for n in names if n not in ("ilLyoCler1_2", "ngHelPoly1")]
        spec = [{"specimen": n, "tid": len(traces) + 1 + k} for k, n in enumerate(small if tier == "quick" else small)]
        traces += C.pmap("harness.remap_engine", "run_specimen", spec, chunk=1)
    # conservation through the files the command line tool writes (an assembly left out of the written set loses sequence silently)
    if pid in ("C01", "C11"):
        jobs = [{"root": str(run.sub("cli")), "cfg": c, "tid": len(traces) + 1 + k} for k, c in enumerate(("single", "multi", "twohap", "cut", "recurate"))]
        traces += C.pmap("harness.cli_engine", "cli_remap_case", jobs, chunk=1)
    jr = R.judge(run, traces, [pid, "MODEL"])
    by = {t["tid"]: t for t in traces}
    # design level: the pipeline model against the same predicates (one texel size in the quick tier)
    mcs = []
    if pid in ("C01", "C02", "C07", "C11"):
        for tn, td in (R.TEXELS[tier][:1] if tier == "quick" else R.TEXELS[tier]):
            mcs.append(R.model_check(run, tn, td, "perturb" if pid == "C01" else "valid", 1 if pid == "C01" else 2, 2, 1 if pid == "C01" else 0, f"MC_Remap_{tn}_{td}"))
    drift = {}
    for m in jr["M"]:
        drift[m[2]] = drift.get(m[2], 0) + 1
    for m in jr["M"][:5]:
        print(f"MODEL-DRIFT action={m[2]} trace={m[1]} detail={m[3]}")
    n = C.report(run, pid, jr["V"], by)
    status = {}
    for t in traces:
        status[t["status"]] = status.get(t["status"], 0) + 1
    rev = sum(1 for t in traces if any(r["k"] == "F" and r["st"] == -1 for s in t["input"] for r in s["rows"]))
    smp = traces[len(scen) // 2]
    cov_spec = [t["msg"] + ":" + t["status"] for t in traces if t["cls"] == "specimen"] + [t["cls"] + ":" + t["status"] for t in traces if t["cls"].startswith("cli/")]
    cov = {
        "states": sum(e["model_states"] for e in exports) + sum(m["states"] for m in mcs),
        "transitions": sum(e["model_transitions"] for e in exports) + sum(m["generated"] for m in mcs),
        "traces_validated_against_impl": jr["judged"], "exhaustive": not sampled,
        "evaluations": len(traces), "distinct_nontrivial": sum(1 for t in traces if sum(len(g["pieces"]) for g in t["map"]) > 1 or t["valid"] == 0 or pid == "C08"),
        "rule": "scenarios = distinct Pretext maps reached by TLC in PretextView.tla (14 hand-picked + seeded random input shapes whose contig and gap "
                "lengths straddle 1 texel / ErrLen / 3*ErrLen, both namings, floor/ceil texel counts, sub-texel scaffolds present or absent; gestures Cut at "
                "every texel boundary within Margin+1 bp of a contig boundary, Flip, Move, Split, Swap, Paint; perturbations Drop/Dup/Shift/Ghost), each "
                "executed by the real BuildAssembly; non-trivial = more than one piece, or perturbed" + ("; sampled (seeded) where a class exceeds its cap" if sampled else ""),
        "specimens_judged": cov_spec, "exports": exports, "pipeline_model_checks": mcs, "model_drift": len(jr["M"]), "model_drift_by_action": drift,
        "model_conformant": len(jr["M"]) == 0, "traces_compared_with_pipeline_model": jr["N"].get("completed_runs", 0) if pid != "C01" else None,
        "run_status": status, "scenarios_with_reverse_contigs": rev,
        "antecedents": jr["N"],
        "samples": [{k: smp[k] for k in ("tn", "td", "naming", "valid", "input", "map", "status", "out", "stats")}],
        "known_findings_seen": run.known,
    }
    C.write_evidence(run, pid, cov, assumptions=[
        "the PretextView model (texel grid = floor(k*t), end rounding < 1 texel, pieces >= 2 texels) is calibrated on the 12 specimens; PretextView itself is not available",
        "texel sizes are exactly representable floats", "TLC + Json trusted; projection of rows in harness/remap_engine.py prow",
        "per-base layout predicates (RemapProps!Layout/Window) define where a base is"])
    C.finish(run, pid, n)
