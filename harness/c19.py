"""C19 - overlap QC reports exactly the overlapping contig pairs.
Spec: Intervals.tla (definitions, laws, PlusCal scan), IntervalsScen.tla, IntervalsTrace.tla."""
import io
import json
import random
import re

from harness import common as C

TIERS = {
    "quick": dict(pairs='N = 6 Names = {"a", "b"} MaxFrags = 1', asm='N = 3 Names = {"a", "b"} MaxFrags = 3',
                  mc='N = 3 Names = {"a", "b"} MaxFrags = 3', cli=400, rnd=2000),
    "thorough": dict(pairs='N = 9 Names = {"a", "b"} MaxFrags = 1', asm='N = 3 Names = {"a", "b"} MaxFrags = 4',
                     mc='N = 4 Names = {"a", "b"} MaxFrags = 3', cli=3000, rnd=20000),
}


def _frag(d):
    from tola.assembly.fragment import Fragment
    return Fragment(d["name"], d["s"], d["e"], d["st"])


def _n(v):
    if v is None:
        return -1
    if v is True:
        return 1
    if v is False:
        return 0
    return int(v)


def run_pair(sc):
    x, y = _frag(sc["x"]), _frag(sc["y"])

    def call(_):
        return {"ov": _n(x.overlaps(y)), "ovr": _n(y.overlaps(x)), "ol": _n(x.overlap_length(y)), "olr": _n(y.overlap_length(x)),
                "ab": _n(x.abuts(y)), "abr": _n(y.abuts(x)), "gp": _n(x.gap_between(y)), "gpr": _n(y.gap_between(x))}
    out = C.guarded(call, None, 5.0)
    r = out[1] if out[0] == "ok" else {"ov": -9, "ovr": -8, "ol": -9, "olr": -8, "ab": -9, "abr": -8, "gp": -9, "gpr": -8}
    return {"tid": sc["tid"], "kind": "pair", "x": sc["x"], "y": sc["y"], "r": r}


def _asm(sc):
    from tola.assembly.assembly import Assembly
    from tola.assembly.gap import Gap
    from tola.assembly.scaffold import Scaffold
    frs = [_frag(d) for d in sc["frs"]]
    cut = sc["cut"]
    groups = [frs] if cut == 0 else [frs[:cut], frs[cut:]]
    scs = []
    for gi, g in enumerate(groups, 1):
        rows = []
        for n, f in enumerate(g):
            if n and (n + gi) % 2:
                rows.append(Gap(7, "scaffold"))
            rows.append(f)
        scs.append(Scaffold(f"S{gi}", rows))
    return Assembly("t", scaffolds=scs), frs


def scaled(d, k):
    """the same fragment on a k times coarser grid: base b becomes bases (b-1)*k+1 .. b*k (shared bases, abutment and order are kept)"""
    return dict(d, s=(d["s"] - 1) * k + 1, e=d["e"] * k)


def run_asm(sc):
    asm, frs = _asm(sc)
    t = {"tid": sc["tid"], "kind": "asm", "frs": sc["frs"], "cut": sc["cut"], "pairs": [], "cli": 0, "clipairs": [], "exc": "", "variant": sc.get("variant", "")}
    if "edit" in sc:
        # history: the QC has already run once on this very Assembly object; then one row is replaced in place (as OverlapResult.trim_fragment
        # does with scaffold rows) and the QC runs again - the trace holds the edited fragment list and the SECOND report
        C.guarded(lambda _: asm.find_overlapping_fragments(), None, 10.0)
        m, d = sc["edit"]
        old, new = frs[m], _frag(d)
        for scf in asm.scaffolds:
            for i, r in enumerate(scf.rows):
                if r is old:
                    scf.rows[i] = new
        frs[m] = new
        t["frs"] = [dict(x) for x in sc["frs"]]
        t["frs"][m] = d
    pos = {id(f): i for i, f in enumerate(frs, 1)}
    out = C.guarded(lambda _: asm.find_overlapping_fragments(), None, 10.0)
    if out[0] != "ok":
        t["exc"] = out[1] if out[0] == "exc" else "HANG"
    else:
        for p in out[1] or []:
            a, b = pos.get(id(p[0][0]), 0), pos.get(id(p[1][0]), 0)
            t["pairs"].append(sorted([a, b]))
    if sc.get("cli"):
        t["cli"] = 1
        t["clipairs"] = cli_pairs_stdin(asm, frs) if sc["tid"] % 3 == 0 else cli_pairs(asm, frs)
        if sc["tid"] % 3 == 0:
            t["variant"] = (t["variant"] + "/" if t["variant"] else "") + "qc-from-stdin"
    return t


def cli_pairs_stdin(asm, frs):
    """asm-format --qc-overlaps reading the assembly from STDIN (no file arguments)"""
    from click.testing import CliRunner
    from tola.assembly.format import format_agp
    from tola.assembly.fragment import Fragment
    from tola.assembly.scripts import asm_format
    n = 0
    for s in asm.scaffolds:
        for i, r in enumerate(s.rows):
            if isinstance(r, Fragment):
                n += 1
                s.rows[i] = Fragment(r.name, r.start, r.end, r.strand, (f"P{n}",))
    buf = io.StringIO()
    format_agp(asm, buf)
    try:
        res = CliRunner(mix_stderr=False).invoke(asm_format.cli, ["--qc-overlaps"], input=buf.getvalue())
        err = res.stderr
    except TypeError:
        res = CliRunner().invoke(asm_format.cli, ["--qc-overlaps"], input=buf.getvalue())
        err = res.output
    return [sorted([int(m.group(1)), int(m.group(2))]) for m in re.finditer(r"Overlap:\n\S+ \S+ P(\d+)\n\S+ \S+ P(\d+)", err)]


def cli_pairs(asm, frs):
    """Run the real asm-format --qc-overlaps and parse the pairs it lists on stderr.  The assembly is given twice in one invocation, as two
    input files with the same stem in different directories (a clean copy of scaffold 1 only comes second), so that a report which loses
    track of earlier files shows."""
    import os
    import tempfile
    from click.testing import CliRunner
    from tola.assembly.assembly import Assembly
    from tola.assembly.format import format_agp
    from tola.assembly.scripts import asm_format
    # give every fragment a unique tag so that the printed lines identify positions
    from tola.assembly.fragment import Fragment
    n = 0
    for s in asm.scaffolds:
        for i, r in enumerate(s.rows):
            if isinstance(r, Fragment):
                n += 1
                s.rows[i] = Fragment(r.name, r.start, r.end, r.strand, (f"P{n}",))
    buf = io.StringIO()
    format_agp(asm, buf)
    clean = io.StringIO()
    first = asm.scaffolds[0]
    format_agp(Assembly("c", scaffolds=[type(first)("Z9", [Fragment("zz", 1, 5, 1, ("P0",))])]), clean)
    with tempfile.TemporaryDirectory() as d:
        os.mkdir(os.path.join(d, "run1"))
        os.mkdir(os.path.join(d, "run2"))
        p = os.path.join(d, "run1", "in.agp")
        p2 = os.path.join(d, "run2", "in.agp")
        open(p, "w").write(buf.getvalue())
        open(p2, "w").write(clean.getvalue())
        try:
            res = CliRunner(mix_stderr=False).invoke(asm_format.cli, [p, p2, "--qc-overlaps"])
            err = res.stderr
        except TypeError:
            res = CliRunner().invoke(asm_format.cli, [p, p2, "--qc-overlaps"])
            err = res.stderr if hasattr(res, "stderr") else res.output
    pairs = []
    for m in re.finditer(r"Overlap:\n\S+ \S+ P(\d+)\n\S+ \S+ P(\d+)", err):
        pairs.append(sorted([int(m.group(1)), int(m.group(2))]))
    return pairs


def run_focli(sc):
    """the third command line tool, find-overlaps: an assembly file plus '<name>:<start>-<end>' specifications; its report lines are parsed back
    (scaffold, position label, fragment, bait, overlap length)"""
    import os
    import tempfile
    from click.testing import CliRunner
    from tola.assembly.format import format_agp, format_tpf
    from tola.assembly.scripts import find_overlaps
    asm, frs = _asm(sc)
    t = {"tid": sc["tid"], "kind": "focli", "scaffolds": [], "baits": sc["baits"], "reports": [], "exc": "", "exit": 0, "fmt": sc["fmt"]}
    for scf in asm.scaffolds:
        rows = []
        for r in scf.rows:
            rows.append({"k": "F", "name": r.name, "s": r.start, "e": r.end, "st": r.strand} if hasattr(r, "strand") else {"k": "G", "name": "gap", "s": 1, "e": r.length, "st": 0})
        t["scaffolds"].append({"name": scf.name, "rows": rows})
    with tempfile.TemporaryDirectory() as d:
        p = os.path.join(d, "in." + sc["fmt"])
        with open(p, "w") as fh:
            (format_agp if sc["fmt"] == "agp" else format_tpf)(asm, fh)
        specs = [f"{b['name']}:{b['s']}-{b['e']}" for b in sc["baits"]]
        try:
            res = CliRunner().invoke(find_overlaps.cli, [p] + specs)
        except Exception as e:  # noqa: BLE001
            t["exc"] = type(e).__name__
            return t
    t["exit"] = res.exit_code
    if res.exception is not None and not isinstance(res.exception, SystemExit):
        t["exc"] = type(res.exception).__name__
    for m in re.finditer(r"^  (only row|first row|last row|row \d+) of (\S+): (\S+):(\d+)-(\d+)\([-+.]\)\n    overlaps (\S+):(\d+)-(\d+)\(\+\) by ([\d,]+) bp$", res.output, flags=re.M):
        t["reports"].append({"pos": m.group(1), "scaffold": m.group(2), "name": m.group(3), "s": int(m.group(4)), "e": int(m.group(5)),
                             "bname": m.group(6), "bs": int(m.group(7)), "be": int(m.group(8)), "ovr": int(m.group(9).replace(",", ""))})
    t["lines"] = sum(1 for ln in res.output.splitlines() if ln.startswith("    overlaps "))
    return t


def main(tier, replay=None):
    run = C.Run("C19", tier)
    cfg = TIERS[tier]
    if replay:
        tr = json.load(open(replay))["trace"]
        tr["tid"] = 1
        traces = [run_pair(tr) if tr["kind"] == "pair" else run_focli(tr) if tr["kind"] == "focli" else run_asm(dict(tr, cli=1))]
        jr = C.judge("IntervalsTrace", traces, run.dir, consts=cfg["mc"], spec="TraceSpec")
        C.finish(run, "C19", C.report(run, "C19", jr["V"], {1: traces[0]}))
    mc = C.tlc_ok(C.tlc("Intervals", f"SPECIFICATION Spec\nCONSTANTS {cfg['mc']}\nINVARIANT ScanCorrect\nINVARIANT Laws\nINVARIANT ValidCutType\n"
                        .replace("INVARIANT ValidCutType\n", ""), run.dir, name="MC_Intervals", args=["-coverage", "1"]), "model check")
    # unbounded: TLAPS proves symmetry, trichotomy and positivity of the interval definitions for ALL integer intervals
    import subprocess
    import shutil as _sh
    pdir = run.sub("proofs")
    _sh.copy(C.SPEC / "proofs" / "IntervalLaws.tla", pdir / "IntervalLaws.tla")
    try:
        pr = subprocess.run(["tlapm", "--toolbox", "0", "0", "IntervalLaws.tla"], cwd=str(pdir), capture_output=True, text=True, timeout=600)
        pout = pr.stdout + pr.stderr
    except Exception as e:  # noqa: BLE001
        pout = "tlapm failed: " + repr(e)
    import re as _re
    mproved = _re.search(r"All (\d+) obligations? proved", pout)
    proofs = {"tool": "tlapm (SMT backend)", "module": "spec/proofs/IntervalLaws.tla", "theorems": ["Symmetric", "Trichotomy", "OverlapPositive"],
              "obligations_proved": int(mproved.group(1)) if mproved else 0, "all_proved": bool(mproved)}
    if not mproved:
        print("note: TLAPS did not prove all obligations of IntervalLaws.tla (design-level garnish, not a verdict):", pout[-300:])
    base = "INIT ScenInit\nNEXT ScenNext\nCHECK_DEADLOCK FALSE\nCONSTRAINT Emit\nCONSTANTS "
    sp = C.export("IntervalsScen", base + cfg["pairs"] + ' Which = "pairs"\n', run.dir, name="scen-pairs")
    pairs = sp["objs"]
    sa = C.export("IntervalsScen", base + cfg["asm"] + ' Which = "asm"\n', run.dir, name="scen-asm")
    asms = sa["objs"]
    if len(pairs) != sp["distinct"] or len(asms) != sa["distinct"] or not pairs or not asms:
        raise C.Machinery("scenario export count mismatch")
    rng = random.Random(C.seed())
    # seeded larger assemblies (up to 8 fragments, coordinates to 12)
    for _ in range(cfg["rnd"]):
        n = rng.randint(2, 8)
        frs = []
        for _ in range(n):
            s = rng.randint(1, 12)
            frs.append({"name": rng.choice("ab"), "s": s, "e": rng.randint(s, min(12, s + 4)), "st": rng.choice([1, -1])})
        asms.append({"frs": frs, "cut": rng.randint(0, n - 1)})
    # the same assemblies on coarser grids (coordinates in the millions, as in real assemblies): a sample of the exported and random ones
    base_asms = list(asms)
    for k in (65536, 1048576, 1000003):
        for a in rng.sample(base_asms, min(cfg["rnd"] // 4, len(base_asms))):
            asms.append({"frs": [scaled(d, k) for d in a["frs"]], "cut": a["cut"], "variant": f"grid*{k}"})
    # contig names that a numeric-aware ordering cannot tell apart (leading zeros, a numeral against a digit): "same contig" means the same NAME
    for a in rng.sample(base_asms, min(cfg["rnd"] // 2, len(base_asms))):
        pair = rng.choice([("ctg_01", "ctg_1"), ("chrIV", "chr4"), ("S_I", "S_1")])
        ren = {"a": pair[0], "b": pair[1]}
        asms.append({"frs": [dict(d, name=ren[d["name"]]) for d in a["frs"]], "cut": a["cut"], "variant": "look-alike-names"})
    # histories: report, replace one row of the same Assembly object in place, report again
    for a in rng.sample(base_asms, min(cfg["rnd"] // 2, len(base_asms))):
        m = rng.randrange(len(a["frs"]))
        s0 = rng.randint(1, 12)
        d = {"name": rng.choice("ab"), "s": s0, "e": rng.randint(s0, min(12, s0 + 4)), "st": rng.choice([1, -1])}
        asms.append({"frs": a["frs"], "cut": a["cut"], "edit": [m, d], "variant": "edited-in-place"})
    base_pairs = list(pairs)
    for k in (1048576, 1000003):
        for pr in rng.sample(base_pairs, min(cfg["rnd"] // 2, len(base_pairs))):
            pairs.append({"x": scaled(pr["x"], k), "y": scaled(pr["y"], k)})
    clisel = set(rng.sample(range(len(asms)), min(cfg["cli"], len(asms))))
    for i, a in enumerate(asms):
        a["cli"] = 1 if i in clisel else 0
    tid = 0
    for s in pairs + asms:
        tid += 1
        s["tid"] = tid
    # the find-overlaps command line tool on a sample of the assemblies with one or two specifications (model-drift clauses: not C19's QC)
    fo = []
    for a in rng.sample(base_asms, min(cfg["cli"], len(base_asms))):
        nb = rng.choice([1, 2])
        baits = []
        for _ in range(nb):
            s0 = rng.randint(1, 12)
            baits.append({"name": rng.choice("ab"), "s": s0, "e": rng.randint(s0, min(12, s0 + 4)), "st": 1})
        tid += 1
        fo.append({"tid": tid, "frs": a["frs"], "cut": a["cut"], "baits": baits, "fmt": rng.choice(["agp", "tpf"])})
    tp = C.pmap("harness.c19", "run_pair", pairs, chunk=1000)
    ta = C.pmap("harness.c19", "run_asm", asms, chunk=300)
    tf = C.pmap("harness.c19", "run_focli", fo, chunk=100)
    traces = tp + ta + tf
    jr = C.judge("IntervalsTrace", traces, run.dir, consts=cfg["mc"], shard=max(500, len(traces) // 16 + 1), spec="TraceSpec")
    by = {t["tid"]: t for t in traces}
    n = C.report(run, "C19", jr["V"], by)
    for m in jr["M"][:5]:
        print(f"MODEL-DRIFT action={m[2]} trace={m[1]} detail={m[3]}")
    cov = {
        "states": mc["distinct"], "transitions": mc["generated"], "traces_validated_against_impl": jr["judged"], "exhaustive": True,
        "evaluations": len(traces), "distinct_nontrivial": jr["N"].get("asm_with_overlap", 0) + sum(1 for t in tp if t["x"]["name"] == t["y"]["name"]),
        "rule": "pairs: every ordered pair of fragments (2 contig names x every interval in 1..N x both strands), exported by TLC; assemblies: every "
                "list of <= MaxFrags fragments x every split into one or two scaffolds, exported by TLC, plus seeded random assemblies of <= 8 "
                "fragments; samples of both on coarser grids (every base stretched to 65536, 1048576 or 1000003 bases, so coordinates reach 10^7) and as "
                "histories (report, replace one row of the same Assembly object in place, report again); a sample also through the real asm-format "
                "--qc-overlaps CLI; non-trivial = same-named pair / assembly with an overlap",
        "variants": {v: sum(1 for t in ta if t.get("variant") == v) for v in sorted({t.get("variant", "") for t in ta})},
        "pair_constants": cfg["pairs"], "assembly_constants": cfg["asm"], "model_constants": cfg["mc"],
        "pair_traces": len(tp), "assembly_traces": len(ta), "cli_runs": len(clisel), "assemblies_with_overlap": jr["N"].get("asm_with_overlap", 0),
        "action_coverage": C.coverage_counts(mc["out"]), "unbounded_proofs_of_definition_laws": proofs,
        "find_overlaps_cli_runs": len(tf), "find_overlaps_report_lines": jr["N"].get("find_overlaps_reports", 0),
        "model_drift": len(jr["M"]), "model_conformant": len(jr["M"]) == 0,
        "samples": [tp[len(tp) // 2], ta[len(ta) // 2], [t for t in ta if t["cli"]][0], tf[0]],
        "known_findings_seen": run.known,
    }
    C.write_evidence(run, "C19", cov, assumptions=["TLC + Json module trusted", "None is recorded as -1 and booleans as 0/1 by harness/c19.py",
                                                    "CLI stderr is parsed by a regular expression keyed on per-fragment tags P<n>"])
    C.finish(run, "C19", n)
