"""C20 - scaffold ordering is total, numeric-aware and never fails.
Spec: NaturalSort.tla (laws + model of the key), NaturalSortScen.tla (scenario families, claims), NaturalSortTrace.tla."""
import itertools
import json
import random

from harness import common as C

TIERS = {
    "quick": dict(fams=[("F1", 4), ("F2", 1), ("F3", 1), ("F4", 1), ("F5", 1), ("F5n", 1), ("F6", 1)], rnd=3000, long=400),
    "thorough": dict(fams=[("F1", 5), ("F2", 1), ("F3", 1), ("F4", 1), ("F5", 1), ("F5n", 1), ("F6", 1)], rnd=40000, long=4000),
}


def perms(n, rng):
    if n <= 4:
        return [list(p) for p in itertools.permutations(range(1, n + 1))]
    base = list(range(1, n + 1))
    out = [base, base[::-1]]
    for _ in range(6):
        p = base[:]
        rng.shuffle(p)
        out.append(p)
    return out


def run_case(sc):
    from tola.assembly.assembly import Assembly
    from tola.assembly.scaffold import Scaffold
    names = [sc.get("pad", "") + "".join(n) for n in sc["names"]]
    rng = random.Random(sc["tid"])
    runs = []
    for perm in perms(len(names), rng):
        scs = [Scaffold(names[b - 1], rank=sc["ranks"][b - 1]) for b in perm]
        ident = {id(s): b for s, b in zip(scs, perm)}
        r = {"perm": perm, "exc": "", "outN": [], "outR": [], "outN2": []}

        def call(_):
            a = Assembly("t", scaffolds=list(scs))
            on = [ident[id(s)] for s in a.scaffolds_sorted_by_name()]
            a.smart_sort_scaffolds()
            orr = [ident[id(s)] for s in a.scaffolds]
            # history: the same scaffold objects are renamed in place (names rotated by one) and sorted again
            for s, b in zip(scs, perm):
                s.name = names[b % len(names)]
            on2 = [s.name for s in a.scaffolds_sorted_by_name()]
            return on, orr, [names.index(x) + 1 for x in on2]
        out = C.guarded(call, None, 5.0)
        if out[0] == "ok":
            r["outN"], r["outR"], r["outN2"] = out[1]
        else:
            r["exc"] = out[1] if out[0] == "exc" else "HANG"
        runs.append(r)
    return {"tid": sc["tid"], "fam": sc["fam"], "names": sc["names"], "ranks": sc["ranks"], "claims": sc["claims"], "runs": runs, "pad": sc.get("pad", ""),
            "variant": "long" if sc.get("pad") else ""}


def random_scen(rng, n):
    alpha = "SuIVX_019.-"
    out = []
    for _ in range(n):
        k = rng.randint(2, 6)
        names = set()
        while len(names) < k:
            names.add("".join(rng.choice(alpha) for _ in range(rng.randint(1, 7))))
        names = sorted(names)
        rng.shuffle(names)
        out.append({"fam": "R", "names": [list(x) for x in names], "ranks": [rng.randint(1, 3) for _ in names], "claims": []})
    return out


def main(tier, replay=None):
    run = C.Run("C20", tier)
    cfg = TIERS[tier]
    if replay:
        tr = json.load(open(replay))["trace"]
        tr["tid"] = 1
        traces = [run_case(tr)]
        jr = C.judge("NaturalSortTrace", traces, run.dir, spec="TraceSpec")
        C.finish(run, "C20", C.report(run, "C20", jr["V"], {1: traces[0]}, sig_of=sig))
    scen = []
    states = gen = 0
    for fam, maxlen in cfg["fams"]:
        r = C.export("NaturalSortScen", "INIT ScenInit\nNEXT ScenNext\nCHECK_DEADLOCK FALSE\nCONSTRAINT Emit\nINVARIANT ModelOK\nINVARIANT PadLemma\n"
                     f'CONSTANTS Fam = "{fam}" MaxLen = {maxlen}\n', run.dir, name=f"scen-{fam}")
        if len(r["objs"]) != r["distinct"] or not r["objs"]:
            raise C.Machinery(f"scenario export {fam}: {len(r['objs'])} parsed vs {r['distinct']} states")
        states += r["distinct"]
        gen += r["generated"]
        scen += r["objs"]
    scen += random_scen(random.Random(C.seed()), cfg["rnd"])
    # long names: a sample of the same name sets behind a common prefix that holds hundreds of numbers (or a thousand letters) - names of
    # re-curated, concatenated assemblies are not bounded, and the ordering must not depend on where in a name a number sits
    rng = random.Random(C.seed() + 5)
    multi = [s for s in scen if len(s["names"]) >= 2]
    # (the trace keeps the names as exported plus the prefix; NaturalSortScen!PadLemma is why the judge may look at the exported names only)
    for pad in ("1_" * 300, "7." * 257 + "s", "x" * 1000 + "_", "I_" * 260, "I_2_" * 140):
        for s in rng.sample(multi, min(cfg["long"], len(multi))):
            scen.append(dict(s, pad=pad))
    for i, s in enumerate(scen, 1):
        s["tid"] = i
    traces = C.pmap("harness.c20", "run_case", scen, chunk=1000)
    jr = C.judge("NaturalSortTrace", traces, run.dir, shard=max(500, len(traces) // 16 + 1), spec="TraceSpec")
    by = {t["tid"]: t for t in traces}
    n = C.report(run, "C20", jr["V"], by, sig_of=sig)
    for m in jr["M"][:5]:
        print(f"MODEL-DRIFT action={m[2]} trace={m[1]} detail={m[3]}")
    fams = {}
    for t in traces:
        fams[t["fam"]] = fams.get(t["fam"], 0) + 1
    cov = {
        "states": states, "transitions": gen, "traces_validated_against_impl": jr["judged"], "exhaustive": True,
        "evaluations": jr["N"].get("sort_calls", 0), "distinct_nontrivial": sum(1 for t in traces if len(t["names"]) > 1 or len(t["names"][0]) > 1),
        "rule": "scenario families F1..F6 of NaturalSortScen.tla exported by TLC (every name up to MaxLen over a 10-letter alphabet as a singleton; "
                "pairs from a 190-name pool; decimal, numeral, unloc and rank claim families), each sorted by the real code in every input "
                "permutation (n <= 4) or 8 orders (n > 4), plus seeded random name sets; TLC also checks the model key against every claim",
        "families": fams, "sort_calls": jr["N"].get("sort_calls", 0), "safe_sets_with_consistency_judged": jr["N"].get("safe_sets", 0),
        "claims_judged": sum(len(t["claims"]) * len(t["runs"]) for t in traces),
        "model_drift": len(jr["M"]), "model_conformant": len(jr["M"]) == 0,
        "samples": [next(t for t in traces if t["fam"] == f) for f in ("F3", "F5", "F6")],
        "known_findings_seen": run.known,
    }
    C.write_evidence(run, "C20", cov, assumptions=["TLC + Json trusted", "names enter TLA+ as sequences of one-character strings produced by the harness",
                                                    "character order table NaturalSort!Chars covers [-.0-9A-Z_a-z] only"])
    C.finish(run, "C20", n)


def sig(clause, detail, tr):
    return f"{clause}/{detail}"
