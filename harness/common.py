"""Shared machinery: TLC invocation, batch trace judging, worker pool with watchdog, evidence,
known findings.  Used by every check (see DESIGN.md section 2)."""

import json
import multiprocessing
import os
import re
import shutil
import signal
import subprocess
import sys
import tempfile
import time
from concurrent.futures import ThreadPoolExecutor
from pathlib import Path

VERIF = Path(__file__).resolve().parent.parent
SPEC = VERIF / "spec"
# (tools/seedtest.py redirects both when it evaluates a patched scratch copy, so that registered evidence is never overwritten by such runs)
EVIDENCE = Path(os.environ.get("VERIF_EVIDENCE_DIR", VERIF / "evidence"))
REPLAYS = Path(os.environ.get("VERIF_REPLAYS_DIR", VERIF / "replays"))
REPO = Path(os.environ.get("VERIF_REPO", "/repo"))
TLA_JARS = "/opt/veriftools/tla/tla2tools.jar:/opt/veriftools/tla/CommunityModules-deps.jar"
NCPU = min(16, os.cpu_count() or 1)

sys.dont_write_bytecode = True
os.environ.setdefault("PYTHONDONTWRITEBYTECODE", "1")
if str(REPO / "src") not in sys.path:
    sys.path.insert(0, str(REPO / "src"))

from harness import tlaval  # noqa: E402


class Machinery(Exception):
    """Failure of the verification machinery itself (exit status 2), never a property verdict."""


def seed():
    try:
        return int(os.environ.get("VERIF_SEED", "0"))
    except ValueError:
        return 0


# ----------------------------------------------------------------------------------------------
# run directory


class Run:
    def __init__(self, pid, tier):
        self.pid = pid
        self.tier = tier
        self.t0 = time.time()
        base = os.environ.get("TMPDIR") or "/tmp"
        self.dir = Path(tempfile.mkdtemp(prefix=f"verif-{pid}-", dir=base))
        self.violations = []  # (clause, signature, replay path)
        self.known = {}  # signature -> count
        self.coverage = {}
        self.counters = {}
        self.mc = []  # model-checking results
        self.assumptions = []
        self.drift = []

    def sub(self, name):
        d = self.dir / name
        d.mkdir(parents=True, exist_ok=True)
        return d

    def cleanup(self):
        shutil.rmtree(self.dir, ignore_errors=True)

    def wall(self):
        return round(time.time() - self.t0, 2)


# ----------------------------------------------------------------------------------------------
# TLC


_STATES_RE = re.compile(r"(\d+) states generated, (\d+) distinct states found, (\d+) states left on queue")


def tlc(module, cfg_text, rundir, name=None, workers=NCPU, env=None, timeout=3000, args=(), heap="4g",
        deadlock=False, simulate=None):
    """Run TLC on /verif/spec/<module>.tla with the given cfg text.  Returns a dict with stdout,
    generated/distinct counts, error flag, violated invariant names."""
    name = name or module
    mark(f"tlc {name} start")
    rundir = Path(rundir)
    cfg = rundir / f"{name}.cfg"
    cfg.write_text(cfg_text)
    meta = rundir / f"{name}.meta"
    cmd = ["java", "-XX:+UseParallelGC", f"-Xmx{heap}", "-Xss256m", "-cp", TLA_JARS, "tlc2.TLC",
           "-workers", str(workers), "-metadir", str(meta), "-noGenerateSpecTE", "-config", str(cfg)]
    if deadlock:
        cmd.append("-deadlock")
    if simulate:
        cmd += ["-simulate", simulate]
    cmd += list(args)
    cmd.append(str(SPEC / f"{module}.tla"))
    e = dict(os.environ)
    e.pop("JAVA_TOOL_OPTIONS", None)
    if env:
        e.update(env)
    t0 = time.time()
    try:
        p = subprocess.run(cmd, cwd=str(rundir), env=e, capture_output=True, text=True, timeout=timeout)
        out = p.stdout + ("\n" + p.stderr if p.stderr.strip() else "")
        rc = p.returncode
    except subprocess.TimeoutExpired as ex:
        out = (ex.stdout.decode() if isinstance(ex.stdout, bytes) else (ex.stdout or "")) + "\nTIMEOUT"
        rc = -9
    shutil.rmtree(meta, ignore_errors=True)
    res = {"module": module, "name": name, "rc": rc, "out": out, "wall_s": round(time.time() - t0, 2),
           "generated": 0, "distinct": 0, "queue": 0}
    for m in _STATES_RE.finditer(out):
        res["generated"], res["distinct"], res["queue"] = (int(x) for x in m.groups())
    res["violated"] = re.findall(r"Invariant (\S+) is violated", out) + re.findall(
        r"Action property (\S+) is violated", out)
    res["completed"] = "Model checking completed. No error has been found." in out
    res["error"] = ("Error:" in out) or rc not in (0,)
    return res


def emitted(out):
    """JSON objects printed by a spec through PrintT(ToJson(x)) (one TLA+ string literal per line)."""
    objs = []
    for line in out.splitlines():
        if line.startswith('"{') or line.startswith('"['):
            objs.append(json.loads(json.loads(line)))
    return objs


def export(module, cfg_text, rundir, name="scen", timeout=1800, heap="4g"):
    """Scenario export: run `module` (INIT/NEXT FALSE/CONSTRAINT Emit) with one worker and return the distinct JSON
    objects it printed; their number must equal TLC's count of distinct states."""
    r = tlc_ok(tlc(module, cfg_text, rundir, name=name, workers=1, timeout=timeout, heap=heap), "scenario export")
    seen = set()
    objs = []
    for o in emitted(r["out"]):
        k = json.dumps(o, sort_keys=True)
        if k not in seen:
            seen.add(k)
            objs.append(o)
    r["objs"] = objs
    return r


def tlc_ok(res, what=""):
    """Raise Machinery unless TLC finished without any error."""
    if not res["completed"] or res["error"]:
        tail = "\n".join(res["out"].splitlines()[-40:])
        raise Machinery(f"TLC run {res['name']} {what} did not complete cleanly (rc={res['rc']}):\n{tail}")
    return res


def tlaps(run, module, deps=()):
    """Run the TLA+ proof system on spec/proofs/<module>.tla (with the listed spec modules copied beside it).  Design-level garnish:
    the result goes into the evidence file, it is never a verdict."""
    import re
    d = run.sub("proofs-" + module)
    shutil.copy(SPEC / "proofs" / f"{module}.tla", d / f"{module}.tla")
    for m in deps:
        shutil.copy(SPEC / f"{m}.tla", d / f"{m}.tla")
    try:
        p = subprocess.run(["tlapm", "--toolbox", "0", "0", f"{module}.tla"], cwd=str(d), capture_output=True, text=True, timeout=900)
        out = p.stdout + p.stderr
    except Exception as e:  # noqa: BLE001
        out = "tlapm failed: " + repr(e)
    m = re.search(r"All (\d+) obligations? proved", out)
    if not m:
        print(f"note: TLAPS did not prove all obligations of {module}.tla (design-level, not a verdict): {out[-300:]}")
    return {"tool": "tlapm", "module": f"spec/proofs/{module}.tla", "obligations_proved": int(m.group(1)) if m else 0, "all_proved": bool(m)}


def coverage_counts(out):
    """Per-action counts from `-coverage` output: lines like  <Act line ..., col ... of module M>: 12:34"""
    cov = {}
    for m in re.finditer(r"<(\w+) line \d+, col \d+ to line \d+, col \d+ of module (\w+)>: (\d+):(\d+)", out):
        cov[f"{m.group(2)}!{m.group(1)}"] = {"distinct": int(m.group(3)), "taken": int(m.group(4))}
    return cov


# ----------------------------------------------------------------------------------------------
# batch judging of recorded traces by TLC


def judge(module, traces, rundir, consts="", shard=2000, jobs=NCPU, timeout=3000, heap="3g", extra_env=None,
          spec="Spec", label=None, header=None):
    """Have TLC evaluate the clauses of spec/<module>.tla (a *Trace module) on `traces` (list of
    dicts, each with an integer 'tid').  Returns dict(V=[...], M=[...], N={clause: count}, judged=n).
    The trace module must define Spec, Post (POSTCONDITION printing <<"JUDGED", n>>) and read
    IOEnv.TRACE_FILE.  One JVM per shard, one worker each, so PrintT lines do not interleave."""
    mark(f"judge {label or module} x{len(traces)}")
    rundir = Path(rundir)
    label = label or module
    shards = [traces[i:i + shard] for i in range(0, len(traces), shard)] or []
    cfg = f"SPECIFICATION {spec}\nCHECK_DEADLOCK FALSE\nPOSTCONDITION Post\n"
    if consts:
        cfg += "CONSTANTS\n" + consts + "\n"

    def one(k):
        f = rundir / f"{label}-shard{k}.json"
        with open(f, "w") as fh:
            json.dump(shards[k] if header is None else {"hdr": header, "traces": shards[k]}, fh, separators=(",", ":"))
        r = tlc(module, cfg, rundir, name=f"{label}-shard{k}", workers=1, env={"TRACE_FILE": str(f), **(extra_env or {})},
                timeout=timeout, heap=heap)
        return r

    res = {"V": [], "M": [], "N": {}, "judged": 0, "generated": 0, "distinct": 0, "wall_s": 0.0, "E": []}
    t0 = time.time()
    with ThreadPoolExecutor(max_workers=jobs) as ex:
        results = list(ex.map(one, range(len(shards))))

    def absorb(out, n):
        res["judged"] += n
        for v in tlaval.find_tuples(out, "V"):
            res["V"].append(v)
        for v in tlaval.find_tuples(out, "M"):
            res["M"].append(v)
        for v in tlaval.find_tuples(out, "N"):
            res["N"][v[1]] = res["N"].get(v[1], 0) + v[2]

    def ok(r, n):
        j = tlaval.find_tuples(r["out"], "JUDGED")
        return bool(r["completed"] and j and j[-1][1] == n)

    def isolate(part, depth):
        """a shard TLC could not evaluate: bisect it, judge what can be judged, collect the traces that cannot (res['E'])"""
        f = rundir / f"{label}-iso{depth}-{part[0].get('tid', 0)}.json"
        with open(f, "w") as fh:
            json.dump(part if header is None else {"hdr": header, "traces": part}, fh, separators=(",", ":"))
        r = tlc(module, cfg, rundir, name=f"{label}-iso{depth}-{part[0].get('tid', 0)}", workers=1, env={"TRACE_FILE": str(f), **(extra_env or {})},
                timeout=timeout, heap=heap)
        if ok(r, len(part)):
            absorb(r["out"], len(part))
        elif len(part) == 1:
            res["E"].append({"tid": part[0].get("tid"), "tail": "\n".join(r["out"].splitlines()[-12:])})
        else:
            h = len(part) // 2
            isolate(part[:h], depth + 1)
            isolate(part[h:], depth + 1)

    # a shard that did not complete is run once more, alone: with many JVMs side by side a run can die of memory pressure (seen: exit 75 on a
    # loaded machine, the same shard fine on its own); a shard that fails twice is handled below
    for k, r in enumerate(results):
        if not ok(r, len(shards[k])) and "Parsing or semantic analysis failed" not in r["out"] and "configuration file" not in r["out"]:
            mark(f"judge {label}: shard {k} did not complete (rc={r['rc']}), running it again alone")
            results[k] = one(k)
    for k, r in enumerate(results):
        if ok(r, len(shards[k])):
            res["generated"] += r["generated"]
            res["distinct"] += r["distinct"]
            absorb(r["out"], len(shards[k]))
        elif "Parsing or semantic analysis failed" in r["out"] or "configuration file" in r["out"] or len(shards[k]) > 20000:
            tail = "\n".join(r["out"].splitlines()[-30:])
            raise Machinery(f"trace judge {module} shard {k} failed (rc={r['rc']})\n{tail}")
        else:
            isolate(shards[k], 0)
    res["wall_s"] = round(time.time() - t0, 2)
    if res["E"] and not res["V"]:
        raise Machinery(f"trace judge {module}: TLC could not evaluate {len(res['E'])} trace(s), e.g. tid {res['E'][0]['tid']}:\n{res['E'][0]['tail']}")
    for e in res["E"][:3]:
        print(f"note: TLC could not evaluate trace {e['tid']} (other traces of this run were judged)", flush=True)
    return res


# ----------------------------------------------------------------------------------------------
# executing repository code with a watchdog


class Hang(BaseException):
    pass


def _alarm(signum, frame):
    raise Hang()


def guarded(fn, arg, limit=10.0):
    """Call fn(arg) under a wall-clock watchdog.  Returns ('ok', value) | ('exc', 'TypeName', msg) | ('hang',)."""
    old = signal.signal(signal.SIGALRM, _alarm)
    signal.setitimer(signal.ITIMER_REAL, limit)
    try:
        return ("ok", fn(arg))
    except Hang:
        return ("hang",)
    except SystemExit as e:
        return ("exc", "SystemExit", str(e.code))
    except Exception as e:  # noqa: BLE001
        return ("exc", type(e).__name__, str(e)[:300])
    finally:
        signal.setitimer(signal.ITIMER_REAL, 0)
        signal.signal(signal.SIGALRM, old)


_POOL_FN = None


def _pool_init(fn_module, fn_name):
    global _POOL_FN
    import importlib
    import logging
    logging.disable(logging.CRITICAL)
    mod = importlib.import_module(fn_module)
    _POOL_FN = getattr(mod, fn_name)


def _pool_call(chunk):
    return [_POOL_FN(x) for x in chunk]


_T0 = time.time()


def mark(label):
    """progress line on stderr when VERIF_TIMING is set (for tuning plan sizes; no effect on verdicts)"""
    if os.environ.get("VERIF_TIMING"):
        print(f"[{time.time() - _T0:7.1f}s] {label}", file=sys.stderr, flush=True)


def pmap(fn_module, fn_name, items, jobs=NCPU, chunk=200):
    """Map a top-level function (module, name) over items in worker processes; keeps order."""
    items = list(items)
    mark(f"pmap {fn_module}.{fn_name} x{len(items)}")
    if not items:
        return []
    chunks = [items[i:i + chunk] for i in range(0, len(items), chunk)]
    ctx = multiprocessing.get_context("fork")
    with ctx.Pool(min(jobs, len(chunks)), initializer=_pool_init, initargs=(fn_module, fn_name)) as pool:
        out = []
        for part in pool.imap(_pool_call, chunks):
            out.extend(part)
    return out


# ----------------------------------------------------------------------------------------------
# findings, verdicts, evidence


def load_findings():
    p = VERIF / "known_findings.json"
    d = json.loads(p.read_text())
    return {f["signature"]: f for f in d.get("findings", [])}


def clause_property(clause):
    return clause.split(".", 1)[0]


def report(run, pid, vlist, trace_by_tid, sig_of=None):
    """Turn V verdict tuples (["V", tid, clause, detail]) into VIOLATION / KNOWN-FINDING lines for
    property `pid`.  Only clauses of that property count.  Returns number of (unlisted) violations."""
    known = load_findings()
    REPLAYS.mkdir(parents=True, exist_ok=True)
    nviol = 0
    seen_sig = {}
    for v in vlist:
        tid, clause = v[1], v[2]
        detail = v[3] if len(v) > 3 else ""
        if clause_property(clause) != pid:
            continue
        tr = trace_by_tid.get(tid)
        sig = sig_of(clause, detail, tr) if sig_of else f"{clause}/{detail}"
        if sig in known and known[sig].get("property") == pid:
            run.known[sig] = run.known.get(sig, 0) + 1
            continue
        seen_sig[sig] = seen_sig.get(sig, 0) + 1
        nviol += 1
        if seen_sig[sig] <= 3 and len(run.violations) < 25:
            path = REPLAYS / f"{pid}-{len(run.violations) + 1}.json"
            path.write_text(json.dumps({"property": pid, "clause": clause, "detail": detail, "signature": sig,
                                        "trace": tr}, indent=1, default=str))
            run.violations.append((clause, sig, str(path)))
            print(f"VIOLATION property={pid} replay={path}   clause={clause} detail={detail}", flush=True)
    for sig, n in run.known.items():
        print(f"KNOWN-FINDING: property={pid} {sig} ({n} cases) -- {known[sig].get('what', '')}", flush=True)
    run.counters["violations_total"] = run.counters.get("violations_total", 0) + nviol
    return nviol


def write_evidence(run, pid, coverage, assumptions=None, level="model_checking"):
    EVIDENCE.mkdir(parents=True, exist_ok=True)
    ev = {
        "property_id": pid,
        "tier": run.tier,
        "seed": seed(),
        "level": level,
        "coverage": coverage,
        "assumptions": assumptions or [],
        "wall_s": run.wall(),
        "violations": run.counters.get("violations_total", 0),
    }
    (EVIDENCE / f"{pid}.json").write_text(json.dumps(ev, indent=1, default=str) + "\n")
    return ev


def finish(run, pid, nviol):
    run.cleanup()
    if nviol:
        sys.exit(1)
    print(f"OK property={pid} tier={run.tier} wall={run.wall()}s", flush=True)
    sys.exit(0)
