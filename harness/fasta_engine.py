"""FASTA engine shared by C03, C04, C13, C14 (and C06 for the cache .agp): executes the real indexer, random access and
streaming on files enumerated by TLC (FastaScen.tla) and records traces judged by FastaTrace.tla."""
import io
import os
import random
import tempfile
import tracemalloc
from pathlib import Path

from harness import common as C

BIG = 1_000_000
_tmpdir = None


def workdir():
    global _tmpdir
    if _tmpdir is None or _tmpdir[0] != os.getpid():
        _tmpdir = (os.getpid(), Path(tempfile.mkdtemp(prefix="fa-", dir=os.environ.get("VERIF_FA_ROOT"))))
    return _tmpdir[1]


class Track:
    maxsize = 0


class TrackBytesIO(io.BytesIO):
    def __init__(self, initial=b""):
        super().__init__(initial)
        if len(initial) > Track.maxsize:
            Track.maxsize = len(initial)

    def write(self, b):
        n = super().write(b)
        t = self.tell()
        if t > Track.maxsize:
            Track.maxsize = t
        return n


def install_tracking():
    import tola.fasta.index as index
    index.BytesIO = TrackBytesIO


def file_bytes(recs, fnl):
    out = bytearray()
    for r in recs:
        eol = b"\r\n" if r["eol"] == 2 else b"\n"
        extra = r["hlen"] - 1 - len(r["name"])
        # description bytes: plain ASCII, or ISO-8859-1 text (not valid UTF-8) - a description is free text and no business of the indexer
        dch = {"latin1": b"\xfc", "degree": b"\xb0"}.get(r.get("hdesc", ""), b"d")
        hdr = b">" + r["name"].encode() + (r.get("hsep", " ").encode() + dch * (extra - 1) if extra > 0 else b"")
        assert len(hdr) == r["hlen"]
        out += hdr + eol
        res = "".join(r["res"]).encode()
        for i in range(0, len(res), r["w"]):
            out += res[i:i + r["w"]] + eol
    if not fnl:
        last_eol = 2 if recs[-1]["eol"] == 2 else 1
        out = out[:-last_eol]
    return bytes(out)


def prow(r):
    from tola.assembly.gap import Gap
    if isinstance(r, Gap):
        return {"k": "G", "name": r.gap_type, "s": 1, "e": r.length, "st": 0}
    return {"k": "F", "name": r.name, "s": r.start, "e": r.end, "st": r.strand}


def mkrow(r):
    from tola.assembly.fragment import Fragment
    from tola.assembly.gap import Gap
    if r["k"] == "G":
        return Gap(r["e"] - r["s"] + 1, r["name"])
    return Fragment(r["name"], r["s"], r["e"], r["st"], tuple(r.get("tags", ())))


def chars(b):
    return [chr(x) for x in b]


def choose_asms(recs, rng, Bs, opts):
    """assemblies (lists of projected rows) to stream for one file, besides the derived ones"""
    singles, multis = [], []
    pool = []
    for r in recs:
        n = len(r["res"])
        if n > 200:
            # long records: a seeded sample of intervals instead of all of them
            ivs = set()
            while len(ivs) < 300:
                s0 = rng.randint(1, n)
                ivs.add((s0, min(n, s0 + rng.choice([0, 1, r["w"], 3 * r["w"] + 1, n // 3, n]))))
            ivs = sorted(ivs)
        else:
            ivs = [(s, e) for s in range(1, n + 1) for e in range(s, n + 1)]
        for s, e in ivs:
            if True:
                for st in ((1, -1, 0) if opts.get("strand0_rows") else (1, -1)):
                    pool.append({"k": "F", "name": r["name"], "s": s, "e": e, "st": st})
    if opts.get("singles"):
        singles = [[p] for p in pool]
    bmid = sorted(Bs)[len(Bs) // 2]
    gaplens = [0, 1, 2, 5, 3 * bmid + 1]
    for m in range(opts.get("multis", 0)):
        rows = []
        for _ in range(rng.randint(2, 4)):
            if rows and rng.random() < 0.35:
                rows.append({"k": "G", "name": "scaffold", "s": 1, "e": rng.choice(gaplens), "st": 0})
            else:
                rows.append(dict(rng.choice(pool)))
        if opts.get("strand0") and m == 0 and rng.random() < 0.3:
            for r in rows:
                if r["k"] == "F":
                    r["st"] = 0
                    break
        multis.append(rows)
    return singles, multis


def run_file(sc):
    """one FASTA file: index under every buffer size, read every interval, stream assemblies"""
    from tola.assembly.scaffold import Scaffold
    from tola.fasta.index import FastaIndex, index_fasta_file
    from tola.fasta.stream import FastaStream
    install_tracking()
    recs, fnl, Bs, Ls, opts = sc["recs"], sc["fnl"], sc["Bs"], sc["Ls"], sc["opts"]
    rng = random.Random(sc["tid"] * 7919 + sc.get("seed", 0))
    path = workdir() / "t.fa"
    path.write_bytes(file_bytes(recs, fnl))
    t = {"tid": sc["tid"], "kind": "file", "cls": sc.get("cls", "enum"), "recs": recs, "fnl": fnl, "maxline": max(min(r["w"], len(r["res"])) for r in recs),
         "idxruns": [], "reads": [], "asms": [], "derived": 0, "streams": [], "revpairs": [], "agp": [], "fai": []}
    good = None
    for B in (Bs if opts.get("idx_all_B") else [BIG]):
        Track.maxsize = 0
        out = C.guarded(lambda _: index_fasta_file(path, B), None, 10.0)
        R = {"B": B, "exc": "", "idx": [], "rows": [], "maxbuf": 0}
        if out[0] != "ok":
            R["exc"] = out[1] if out[0] == "exc" else "HANG"
        else:
            idx, asm = out[1]
            R["idx"] = [{"name": n, "len": v.length, "off": v.file_offset, "rpl": v.residues_per_line, "mll": v.max_line_length} for n, v in idx.items()]
            R["rows"] = [[prow(r) for r in s.rows] for s in asm.scaffolds]
            R["maxbuf"] = Track.maxsize
            good = (idx, asm)
        t["idxruns"].append(R)
    if good is None:
        return t
    idx, asm = good
    if opts.get("reads"):
        fi = FastaIndex(path, BIG)
        fi.index = idx
        for k, r in enumerate(recs, 1):
            info = idx.get(r["name"])
            if info is None:
                continue
            n = len(r["res"])
            if opts.get("reads") == "sample":
                # long records: intervals inside one line, across two lines and across many, all along the record
                w = r["w"]
                ivs = set()
                for _ in range(40):
                    s0 = rng.randint(1, n)
                    ivs.add((s0, min(n, s0 + rng.choice([0, 1, w - 1, w, w + 1, 3 * w, 50 * w]))))
                    ln = rng.randint(0, (n - 1) // w)
                    a = ln * w + 1
                    ivs.add((min(n, a + rng.randint(0, w - 1)), min(n, a + w - 1 - rng.randint(0, 1))))
                ivs = sorted((a, b) for a, b in ivs if a <= b)
            else:
                ivs = [(s, e) for s in range(1, n + 1) for e in range(s, n + 1)]
            for s, e in ivs:
                if True:
                    out = C.guarded(lambda _: fi.sequence_bytes(info, s, e).getvalue(), None, 5.0)
                    t["reads"].append({"k": k, "s": s, "e": e, "exc": "" if out[0] == "ok" else (out[1] if out[0] == "exc" else "HANG"),
                                       "got": chars(out[1]) if out[0] == "ok" else []})
        fi.fasta_fileandle.close()
    if opts.get("disk"):
        # the cache files as auto_load writes them (judged by C06 / C04)
        fi = FastaIndex(path, opts.get("disk_buffer", 7))
        for f in (fi.fai_file, fi.agp_file):
            f.unlink(missing_ok=True)
        out = C.guarded(lambda _: fi.auto_load(), None, 10.0)
        if out[0] == "ok":
            t["agp"] = [ln.split("\t") for ln in fi.agp_file.read_text().splitlines()]
            t["fai"] = [ln.split("\t") for ln in fi.fai_file.read_text().splitlines()]
        for f in (fi.fai_file, fi.agp_file):
            f.unlink(missing_ok=True)
    # ---- assemblies to stream
    derived = [[prow(r) for r in s.rows] for s in asm.scaffolds] if len(asm.scaffolds) == len(recs) else []
    singles, multis = choose_asms(recs, rng, Bs, opts)
    asms = []
    plan = []  # (asm index, list of (B, L))
    combos = [(B, L) for B in Bs for L in Ls]
    if opts.get("derived"):
        for d in derived:
            asms.append(d)
            plan.append((len(asms), [(B, L) for B in Bs for L in (Ls[0], Ls[-1])]))
        t["derived"] = len(asms)
    if opts.get("whole"):
        # the whole of every record as one forward and one reverse fragment
        for r in recs:
            asms.append([{"k": "F", "name": r["name"], "s": 1, "e": len(r["res"]), "st": 1}])
            plan.append((len(asms), [(B, Ls[0]) for B in Bs]))
            rev = Scaffold("x", [mkrow(x) for x in asms[-1]]).reverse()
            asms.append([prow(x) for x in rev.rows])
            plan.append((len(asms), [(B, Ls[0]) for B in Bs]))
            t["revpairs"].append([len(asms) - 1, len(asms)])
    for n, a in enumerate(singles):
        asms.append(a)
        plan.append((len(asms), [combos[(sc["tid"] + n) % len(combos)]]))
    for n, a in enumerate(multis):
        L = Ls[(sc["tid"] + n) % len(Ls)]
        asms.append(a)
        ia = len(asms)
        plan.append((ia, [(B, L) for B in Bs]))
        if opts.get("reverse"):
            try:
                rev = Scaffold("x", [mkrow(r) for r in a]).reverse()
                asms.append([prow(r) for r in rev.rows])
                plan.append((len(asms), [(B, L) for B in Bs]))
                t["revpairs"].append([ia, len(asms)])
            except Exception:  # noqa: BLE001
                pass
    t["asms"] = asms
    fis = {}
    # a second pass over the assemblies that hold gaps, on the SAME FastaIndex objects, with another gap character
    plan2 = [(ia, [(B, L, "n") for (B, L) in bl]) for ia, bl in plan if any(r["k"] == "G" and r["e"] >= r["s"] for r in asms[ia - 1])][:6]
    plan = [(ia, [(B, L, "N") for (B, L) in bl]) for ia, bl in plan] + plan2
    for ia, bl in plan:
        rows = [mkrow(r) for r in asms[ia - 1]]
        for B, L, gc in bl:
            fi = fis.get(B)
            if fi is None:
                fi = fis[B] = FastaIndex(path, B)
                fi.index = idx
            S = {"a": ia, "B": B, "L": L, "exc": "", "hdr": 0, "lines": [], "maxchunk": 0, "maxread": 0, "gc": gc}
            mx = [0]

            def seq_iter(frag, fi=fi, mx=mx):
                for ch in FastaIndex.get_sequence_iter(fi, frag):
                    mx[0] = max(mx[0], len(ch.getvalue()))
                    yield ch

            def gap_iter(gap, gc=b"N", fi=fi, mx=mx):
                for ch in FastaIndex.get_gap_iter(fi, gap, gc):
                    mx[0] = max(mx[0], len(ch.getvalue()))
                    yield ch
            fi.get_sequence_iter = seq_iter
            fi.get_gap_iter = gap_iter
            buf = io.BytesIO()
            Track.maxsize = 0
            # (every fourth assembly is streamed under a 68-character scaffold name: the record name is the scaffold's, whatever its length)
            scname = "scf" if (sc["tid"] + ia) % 4 else "scf_" + "long_assembler_style_name_" * 2 + "0123456789ab"
            out = C.guarded(lambda _: FastaStream(buf, fi, line_length=L, gap_character=gc.encode()).write_scaffold(Scaffold(scname, rows)), None, 60.0)
            if out[0] != "ok":
                S["exc"] = out[1] if out[0] == "exc" else "HANG"
            else:
                data = buf.getvalue()
                parts = data.split(b"\n")
                S["hdr"] = 1 if parts[0] == b">" + scname.encode() and data.endswith(b"\n") else 0
                S["lines"] = [chars(x) for x in parts[1:-1]]
                S["maxchunk"] = mx[0]
                S["maxread"] = Track.maxsize if any(r["k"] == "F" for r in asms[ia - 1]) else 0
            t["streams"].append(S)
    for fi in fis.values():
        if "fasta_fileandle" in fi.__dict__:
            fi.fasta_fileandle.close()
    return t


def run_rev(sc):
    from tola.assembly.scaffold import Scaffold

    def pr(r):
        d = prow(r)
        d["tags"] = list(getattr(r, "tags", ()) or ())
        return d
    t = {"tid": sc["tid"], "kind": "rev", "rows": sc["rows"], "rev": [], "revrev": [], "len": 0, "revlen": 0, "exc": "", "rev_again": [], "rev_of_changed": [],
         "changed": [], "rev_after_own_change": [], "own_changed": []}
    try:
        s = Scaffold("s", [mkrow(r) for r in sc["rows"]])
        r1 = s.reverse()
        r2 = r1.reverse()
        t.update(rev=[pr(r) for r in r1.rows], revrev=[pr(r) for r in r2.rows], len=s.length, revlen=r1.length)
        t["rows"] = [pr(r) for r in s.rows]
        # histories: reverse, change one of the two scaffolds, reverse again (nothing may be remembered from the first reversal)
        extra = mkrow({"k": "F", "name": "zz", "s": 2, "e": 4, "st": 1, "tags": ["T"]})
        r1.add_row(extra)
        t["rev_again"] = [pr(r) for r in s.reverse().rows]          # s is unchanged: must equal the first reversal
        t["rev_of_changed"] = [pr(r) for r in r1.reverse().rows]    # r1 = reversal + extra row
        t["changed"] = [pr(r) for r in r1.rows]
        s.add_row(extra)
        t["rev_after_own_change"] = [pr(r) for r in s.reverse().rows]
        t["own_changed"] = [pr(r) for r in s.rows]
        # ... and changes that do not go through add_row: a row replaced in place (OverlapResult.trim_fragment does that), a scaffold appended
        s2 = Scaffold("s", [mkrow(r) for r in sc["rows"]])
        r3 = s2.reverse()
        if r3.rows:
            r3.rows[0] = extra
        else:
            r3.rows.append(extra)
        t["rev_of_inplace"] = [pr(r) for r in r3.reverse().rows]
        t["inplace"] = [pr(r) for r in r3.rows]
        s3 = Scaffold("s", [mkrow(r) for r in sc["rows"]])
        s3.reverse()
        s3.append_scaffold(Scaffold("y", [extra]))                 # the reversed scaffold itself grows without add_row
        t["rev_after_own_append"] = [pr(r) for r in s3.reverse().rows]
        t["own_appended"] = [pr(r) for r in s3.rows]
        r4 = s2.reverse()
        r4.append_scaffold(Scaffold("y", [extra]))
        t["rev_of_appended"] = [pr(r) for r in r4.reverse().rows]
        t["appended"] = [pr(r) for r in r4.rows]
    except Exception as e:  # noqa: BLE001
        t["exc"] = type(e).__name__
    return t


def table_traces(tid0, rng, n):
    from tola.fasta import simple
    out = [{"tid": tid0, "kind": "table", "table": list(simple.IUPAC_COMPLEMENT)}]
    for i in range(n):
        L = rng.choice([0, 1, 2, 3, 5, 17])
        s = bytes(rng.choice(b"ACGTRYMKSWHBVDNacgtrymkswhbvdn-*xZ\x00\xff") for _ in range(L))
        rc = simple.reverse_complement(s)
        out.append({"tid": tid0 + 1 + i, "kind": "rc", "s": list(s), "rc": list(rc), "rcrc": list(simple.reverse_complement(rc))})
    # sequences longer than any internal block size a "memory saving" rewrite might use (64 KiB, 128 KiB)
    for L in (65537, 70001, 131075):
        s = bytes(rng.choice(b"ACGTRYNacgtn") for _ in range(L))
        rc = simple.reverse_complement(s)
        out.append({"tid": tid0 + 1 + len(out), "kind": "rc", "s": list(s), "rc": list(rc), "rcrc": list(simple.reverse_complement(rc))})
    return out


def mem_traces(tid0, root):
    """peak memory on inputs hundreds of buffers long: one indexing run, one forward, one reverse fragment, one gap"""
    from tola.assembly.fragment import Fragment
    from tola.assembly.gap import Gap
    from tola.assembly.scaffold import Scaffold
    from tola.fasta.index import FastaIndex, index_fasta_file
    from tola.fasta.stream import FastaStream
    install_tracking()
    out = []
    for k, w in enumerate((60, 400 * 2000)):        # wrapped at 60, and the whole sequence on one line (a read must not pull in the rest of its line)
        out += _mem_layout(tid0 + 10 * k, root, w)
    return out


def _mem_layout(tid0, root, w):
    from tola.assembly.fragment import Fragment
    from tola.assembly.gap import Gap
    from tola.assembly.scaffold import Scaffold
    from tola.fasta.index import FastaIndex, index_fasta_file
    from tola.fasta.stream import FastaStream
    B = 2000
    total = 400 * B
    rng = random.Random(5)
    path = Path(root) / "big.fa"
    with open(path, "wb") as fh:
        fh.write(b">big\n")
        seq = bytes(rng.choice(b"ACGT") for _ in range(total))
        for i in range(0, total, w):
            fh.write(seq[i:i + w] + b"\n")
    del seq
    out = []
    Track.maxsize = 0
    tracemalloc.start()
    idx, asm = index_fasta_file(path, B)
    _, peak = tracemalloc.get_traced_memory()
    tracemalloc.stop()
    out.append({"tid": tid0, "kind": "mem", "what": "index", "B": B, "line": w, "total": total, "peak": peak, "maxbuf": Track.maxsize,
                "maxchunk": 0, "maxread": 0})

    # the same through the FastaIndex object, as the command line tools index (auto_load -> run_indexing)
    for f in (Path(str(path) + ".fai"), Path(str(path) + ".agp")):
        f.unlink(missing_ok=True)
    fi0 = FastaIndex(path, B)
    Track.maxsize = 0
    tracemalloc.start()
    fi0.auto_load()
    _, peak = tracemalloc.get_traced_memory()
    tracemalloc.stop()
    out.append({"tid": tid0 + 4, "kind": "mem", "what": "index", "B": B, "line": w, "total": total, "peak": peak, "maxbuf": Track.maxsize,
                "maxchunk": 0, "maxread": 0})
    for f in (Path(str(path) + ".fai"), Path(str(path) + ".agp")):
        f.unlink(missing_ok=True)

    class Sink:
        def write(self, b):
            return len(b)
    for n, (what, row) in enumerate([("stream-forward-fragment", Fragment("big", 1, total, 1)), ("stream-reverse-fragment", Fragment("big", 1, total, -1)),
                                     ("stream-gap", Gap(total, "scaffold"))], 1):
        fi = FastaIndex(path, B)
        fi.index = idx
        mx = [0]

        def seq_iter(frag, fi=fi, mx=mx):
            for ch in FastaIndex.get_sequence_iter(fi, frag):
                mx[0] = max(mx[0], len(ch.getvalue()))
                yield ch

        def gap_iter(gap, gc=b"N", fi=fi, mx=mx):
            for ch in FastaIndex.get_gap_iter(fi, gap, gc):
                mx[0] = max(mx[0], len(ch.getvalue()))
                yield ch
        fi.get_sequence_iter = seq_iter
        fi.get_gap_iter = gap_iter
        Track.maxsize = 0
        tracemalloc.start()
        FastaStream(Sink(), fi).write_scaffold(Scaffold("x", [row]))
        _, peak = tracemalloc.get_traced_memory()
        tracemalloc.stop()
        out.append({"tid": tid0 + n, "kind": "mem", "what": what, "B": B, "line": w, "total": total, "peak": peak, "maxbuf": 0,
                    "maxchunk": mx[0], "maxread": Track.maxsize if what != "stream-gap" else 0})
        if "fasta_fileandle" in fi.__dict__:
            fi.fasta_fileandle.close()
    path.unlink()
    return out


def reject_traces(tid0, root):
    from tola.fasta.index import index_fasta_file
    out = []
    cases = [("duplicate-names", b">a\nACGT\n>b\nAC\n>a\nGG\n"), ("duplicate-adjacent", b">a\nACGT\n>a\nAC\n"), ("empty-file", b""),
             ("only-blank-line", b"\n")]
    for n, (what, data) in enumerate(cases):
        p = Path(root) / "rej.fa"
        p.write_bytes(data)
        r = C.guarded(lambda _: index_fasta_file(p, 5), None, 5.0)
        out.append({"tid": tid0 + n, "kind": "reject", "what": what, "exc": "" if r[0] == "ok" else (r[1] if r[0] == "exc" else "HANG")})
        p.unlink()
    return out


# ------------------------------------------------------------------------------------------------------------------
FILE_CONSTS = {
    "quick": ['MaxRecs = 1 MaxLen = 5 Alphabet = {"A", "c", "N"} Widths = {1, 2, 3, 5} Bufs = {1} Fixed = TRUE',
              'MaxRecs = 2 MaxLen = 3 Alphabet = {"A", "N"} Widths = {1, 2} Bufs = {1} Fixed = TRUE',
              'MaxRecs = 1 MaxLen = 4 Alphabet = {"R", "y", "G", "k"} Widths = {3} Bufs = {1} Fixed = TRUE',
              'MaxRecs = 1 MaxLen = 3 Alphabet = {"A", "U", "u", "-", "*"} Widths = {2} Bufs = {1} Fixed = TRUE'],
    "thorough": ['MaxRecs = 1 MaxLen = 6 Alphabet = {"A", "c", "N"} Widths = {1, 2, 3, 4, 6} Bufs = {1} Fixed = TRUE',
                 'MaxRecs = 2 MaxLen = 3 Alphabet = {"A", "n", "R"} Widths = {1, 2} Bufs = {1} Fixed = TRUE',
                 'MaxRecs = 3 MaxLen = 2 Alphabet = {"A", "N"} Widths = {1, 2} Bufs = {1} Fixed = TRUE',
                 'MaxRecs = 1 MaxLen = 3 Alphabet = {"R", "y", "G", "k", "M", "b", "D", "h", "V", "S", "w"} Widths = {2} Bufs = {1} Fixed = TRUE',
                 'MaxRecs = 1 MaxLen = 4 Alphabet = {"A", "U", "u", "-", "*", "x"} Widths = {3} Bufs = {1} Fixed = TRUE'],
}
MC_CONSTS = {
    "quick": [("index", 'MaxRecs = 2 MaxLen = 3 Alphabet = {"A", "N"} Widths = {1, 2, 3} Bufs = {1, 2, 3, 7} Fixed = TRUE',
               ["IndexOK", "HeldOK", "SeekOK"]),
              ("stream", 'MaxRecs = 1 MaxLen = 3 Alphabet = {"A", "c", "N", "R"} Widths = {2} Bufs = {1, 2, 7} Fixed = TRUE', ["StreamOK"])],
    "thorough": [("index", 'MaxRecs = 2 MaxLen = 4 Alphabet = {"A", "N"} Widths = {1, 2, 3} Bufs = {1, 2, 3, 7} Fixed = TRUE',
                  ["IndexOK", "HeldOK", "SeekOK"]),
                 ("stream", 'MaxRecs = 1 MaxLen = 4 Alphabet = {"A", "c", "N", "R"} Widths = {2} Bufs = {1, 2, 3, 7} Fixed = TRUE', ["StreamOK"])],
}
BS = {"quick": [1, 2, 3, 5, BIG], "thorough": [1, 2, 3, 4, 5, 7, 8, BIG]}
LS = [60, 1, 2, 3]


def model_check(run, tier, which):
    res = []
    for name, consts, invs in MC_CONSTS[tier]:
        if name not in which:
            continue
        cfg = "SPECIFICATION ISpec\nCONSTANTS " + consts + "\nCHECK_DEADLOCK FALSE\n" + "".join(f"INVARIANT {i}\n" for i in invs)
        r = C.tlc_ok(C.tlc("Fasta", cfg, run.dir, name="MC_Fasta_" + name, timeout=2400, args=["-coverage", "1"]), "model check " + name)
        res.append({"config": name, "constants": consts, "invariants": invs, "states": r["distinct"], "generated": r["generated"], "wall_s": r["wall_s"],
                    "action_coverage": C.coverage_counts(r["out"])})
    return res


def export_files(run, tier, sample=None, rng=None):
    files = []
    for n, consts in enumerate(FILE_CONSTS[tier]):
        r = C.export("FastaScen", "INIT ScenInit\nNEXT ScenNext\nCHECK_DEADLOCK FALSE\nCONSTRAINT Emit\nCONSTANTS " + consts + ' Which = "files"\n',
                     run.dir, name=f"scen-files{n}", timeout=2400)
        if len(r["objs"]) != r["distinct"] or not r["objs"]:
            raise C.Machinery(f"file export {n}: {len(r['objs'])} parsed vs {r['distinct']} states")
        files += r["objs"]
    if sample and len(files) > sample:
        files = rng.sample(files, sample)
    return files


def long_files(rng, tier, opts):
    """records of hundreds of lines (line numbers and byte offsets beyond one byte, buffers much shorter than a record): blocks of bases and of
    N of random lengths, written 1, 2, 3 or 60 to a line; indexed under small and large buffers, the derived assembly streamed, a sample of intervals read"""
    out = []
    # (a 20 000-residue record at width 60 was tried for the thorough tier: one TLC judge shard then ran for half an hour; the 70 000-residue
    #  record below, streamed whole, is judged in seconds because it has no sampled multi-row assemblies)
    for width, total in ((1, 300), (2, 640), (3, 1000)):
        for _ in range(2 if tier == "quick" else 6):
            res = []
            while len(res) < total:
                res += [rng.choice("ACGTacgt")] * 0 + [rng.choice("ACGTacgt") for _ in range(rng.choice([1, 1, 2, 5, 30, 3 * width + 1]))]
                res += ["N"] * rng.choice([0, 1, 2, width, 2 * width + 1])
            res = res[:total]
            recs = [{"name": "s1", "hlen": 3, "res": res, "w": width, "eol": rng.choice([1, 2])}]
            o = dict(opts)
            if o.get("reads"):
                o["reads"] = "sample"
            o["singles"] = False
            o["multis"] = min(o.get("multis", 0), 2)
            out.append({"recs": recs, "fnl": rng.choice([0, 1]), "Bs": [1, 7, 64, BIG] if width < 60 else [64, 1000, BIG], "Ls": [60, 7], "opts": o,
                        "seed": C.seed(), "cls": "long-record"})
    # one record longer than 64 KiB of whole lines, CRLF line ends, streamed forward and reversed with the default-sized and a small buffer
    res = []
    while len(res) < 70000:
        res += [rng.choice("ACGT") for _ in range(rng.choice([3000, 9000, 20000]))] + ["N"] * rng.choice([0, 60, 500])
    res = res[:70000]
    o = dict(opts)
    if o.get("reads"):
        o["reads"] = "sample"
    o.update(singles=False, multis=0, whole=True)
    out.append({"recs": [{"name": "s1", "hlen": 3, "res": res, "w": 60, "eol": 2}], "fnl": 1, "Bs": [1000, BIG], "Ls": [60], "opts": o, "seed": C.seed(),
                "cls": "huge-record"})
    return out


def export_rev(run):
    r = C.export("FastaScen", "INIT ScenInit\nNEXT ScenNext\nCHECK_DEADLOCK FALSE\nCONSTRAINT Emit\nCONSTANTS " + FILE_CONSTS["quick"][1] +
                 ' Which = "rev"\n', run.dir, name="scen-rev")
    if len(r["objs"]) != r["distinct"] or not r["objs"]:
        raise C.Machinery("rev export count mismatch")
    return r["objs"]


def engine(run, tier, pid, opts, mc_which, sample=None, extra_kinds=()):
    """common driver: model check, export, execute, judge.  Returns (mc results, traces, judge result)."""
    os.environ["VERIF_FA_ROOT"] = str(run.sub("fa"))
    rng = random.Random(C.seed())
    mcs = model_check(run, tier, mc_which)
    files = export_files(run, tier, sample, rng)
    scen = []
    for f in files:
        scen.append({"recs": f["recs"], "fnl": f["fnl"], "Bs": BS[tier], "Ls": LS, "opts": opts, "seed": C.seed()})
    # the same files with a description after every name, separated by a TAB or by a space (the name ends at the first white space)
    for f in rng.sample(files, min(len(files), 300 if tier == "quick" else 3000)):
        sep = rng.choice(["\t", " ", "\t"])
        hd = rng.choice(["", "", "latin1", "degree"])
        recs = [dict(r, hlen=r["hlen"] + 6, hsep=sep, hdesc=hd) if r["hlen"] == 2 + len(r["name"]) else dict(r, hsep=sep, hdesc=hd) for r in f["recs"]]
        scen.append({"recs": recs, "fnl": f["fnl"], "Bs": BS[tier], "Ls": LS, "opts": opts, "seed": C.seed(), "cls": "described-headers"})
    scen += long_files(rng, tier, opts)
    for i, s in enumerate(scen, 1):
        s["tid"] = i
    traces = C.pmap("harness.fasta_engine", "run_file", scen, chunk=100)
    tid = len(traces) + 1
    if "rev" in extra_kinds:
        rs = export_rev(run)
        for j, r in enumerate(rs):
            r["tid"] = tid + j
        traces += C.pmap("harness.fasta_engine", "run_rev", rs, chunk=500)
        tid = len(traces) + 1
    if "table" in extra_kinds:
        traces += table_traces(tid, rng, 300)
        tid = len(traces) + 1
    if "mem" in extra_kinds:
        traces += mem_traces(tid, run.sub("fa"))
        tid = len(traces) + 1
    if "reject" in extra_kinds:
        traces += reject_traces(tid, run.sub("fa"))
        tid = len(traces) + 1
    if "cli" in extra_kinds:
        from harness import cli_engine
        jobs = [{"root": str(run.sub("cli")), "cfg": c, "buf": b, "tid": tid + k} for k, (c, b) in
                enumerate([(c, b) for c in ("single", "multi", "twohap") for b in (7, 64, 250000)])]
        traces += [r["file"] for r in C.pmap("harness.cli_engine", "cli_fasta_case", jobs, chunk=1)]
    jr = C.judge("FastaTrace", traces, run.dir, consts=FILE_CONSTS["quick"][1], shard=max(50, len(traces) // 16 + 1), spec="TraceSpec", heap="3g")
    return mcs, traces, jr


def replay_one(run, tier, path, opts, kinds):
    import json
    tr = json.load(open(path))["trace"]
    os.environ["VERIF_FA_ROOT"] = str(run.sub("fa"))
    if tr["kind"] == "file":
        traces = [run_file({"tid": 1, "recs": tr["recs"], "fnl": tr["fnl"], "Bs": BS[tier], "Ls": LS, "opts": opts, "seed": C.seed()})]
        traces[0]["tid"] = 1
    elif tr["kind"] == "rev":
        traces = [run_rev({"tid": 1, "rows": tr["rows"]})]
    elif tr["kind"] in ("table", "rc"):
        traces = table_traces(1, random.Random(C.seed()), 300)
    elif tr["kind"] == "mem":
        traces = mem_traces(1, run.sub("fa"))
    else:
        traces = reject_traces(1, run.sub("fa"))
    jr = C.judge("FastaTrace", traces, run.dir, consts=FILE_CONSTS["quick"][1], spec="TraceSpec")
    return traces, jr


def coverage(mcs, traces, jr, rule):
    files = [t for t in traces if t["kind"] == "file"]
    kinds = {}
    for t in traces:
        kinds[t["kind"]] = kinds.get(t["kind"], 0) + 1
    sample = dict(files[len(files) // 2]) if files else {}
    for key in ("reads", "streams", "asms"):
        if key in sample:
            sample[key] = sample[key][:3]
    return {
        "states": sum(m["states"] for m in mcs) or 1, "transitions": sum(m["generated"] for m in mcs) or 1,
        "traces_validated_against_impl": jr["judged"], "exhaustive": True,
        "evaluations": sum(len(t["idxruns"]) + len(t["reads"]) + len(t["streams"]) for t in files) + len(traces) - len(files),
        "distinct_nontrivial": len(files) + sum(len(t["asms"]) for t in files),
        "rule": rule,
        "model_runs": mcs, "trace_kinds": kinds, "files": len(files),
        "index_runs": sum(len(t["idxruns"]) for t in files), "interval_reads": sum(len(t["reads"]) for t in files),
        "streams": sum(len(t["streams"]) for t in files), "reverse_pairs_judged": jr["N"].get("reverse_pairs", 0),
        "files_without_final_newline": sum(1 for t in files if not t["fnl"]), "crlf_files": sum(1 for t in files if t["recs"][0]["eol"] == 2),
        "model_drift": len(jr["M"]), "model_conformant": len(jr["M"]) == 0,
        "samples": [sample] + [t for t in traces if t["kind"] in ("mem", "reject")][:4],
    }
