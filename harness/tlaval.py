"""Reader for TLA+ values as printed by TLC (PrintT output, -dump files, -simulate trace files).

Handles: integers, strings, TRUE/FALSE, model values / identifiers, tuples <<..>>, sets {..},
records [a |-> v, ...], functions (k :> v @@ k :> v) and <<>>/{} .  Returns Python values:
tuple -> list, set -> list (in printed order), record -> dict, function -> dict (keys via repr for
non-hashable keys), string -> str, int -> int, bool -> bool, identifier -> str prefixed with '$'.
"""


class ParseError(Exception):
    pass


def parse(text, pos=0):
    v, pos = _val(text, _ws(text, pos))
    return v, pos


def parse_all(text):
    v, pos = parse(text, 0)
    pos = _ws(text, pos)
    if pos != len(text):
        raise ParseError(f"trailing text at {pos}: {text[pos:pos+40]!r}")
    return v


def _ws(t, i):
    n = len(t)
    while i < n and t[i] in " \t\r\n":
        i += 1
    return i


def _val(t, i):
    n = len(t)
    if i >= n:
        raise ParseError("unexpected end")
    c = t[i]
    if c == '"':
        j = i + 1
        out = []
        while t[j] != '"':
            if t[j] == "\\":
                j += 1
                out.append({"n": "\n", "t": "\t", "r": "\r"}.get(t[j], t[j]))
            else:
                out.append(t[j])
            j += 1
        return "".join(out), j + 1
    if c == "-" or c.isdigit():
        j = i + 1
        while j < n and t[j].isdigit():
            j += 1
        return int(t[i:j]), j
    if t.startswith("<<", i):
        return _seq(t, i + 2, ">>")
    if c == "{":
        return _seq(t, i + 1, "}")
    if c == "[":
        return _rec(t, i + 1)
    if c == "(":
        return _fun(t, i + 1)
    if c.isalpha() or c == "_":
        j = i
        while j < n and (t[j].isalnum() or t[j] == "_"):
            j += 1
        w = t[i:j]
        if w == "TRUE":
            return True, j
        if w == "FALSE":
            return False, j
        return "$" + w, j
    raise ParseError(f"unexpected {c!r} at {i}: {t[i:i+40]!r}")


def _seq(t, i, close):
    out = []
    i = _ws(t, i)
    if t.startswith(close, i):
        return out, i + len(close)
    while True:
        v, i = _val(t, _ws(t, i))
        out.append(v)
        i = _ws(t, i)
        if t.startswith(close, i):
            return out, i + len(close)
        if t[i] != ",":
            raise ParseError(f"expected , or {close} at {i}: {t[i:i+40]!r}")
        i += 1


def _rec(t, i):
    out = {}
    i = _ws(t, i)
    if t[i] == "]":
        return out, i + 1
    while True:
        i = _ws(t, i)
        j = i
        while t[j].isalnum() or t[j] == "_":
            j += 1
        key = t[i:j]
        i = _ws(t, j)
        if not t.startswith("|->", i):
            raise ParseError(f"expected |-> at {i}: {t[i:i+40]!r}")
        v, i = _val(t, _ws(t, i + 3))
        out[key] = v
        i = _ws(t, i)
        if t[i] == "]":
            return out, i + 1
        if t[i] != ",":
            raise ParseError(f"expected , or ] at {i}")
        i += 1


def _fun(t, i):
    out = {}
    while True:
        k, i = _val(t, _ws(t, i))
        i = _ws(t, i)
        if not t.startswith(":>", i):
            raise ParseError(f"expected :> at {i}: {t[i:i+40]!r}")
        v, i = _val(t, _ws(t, i + 2))
        out[k if isinstance(k, (int, str, bool)) else repr(k)] = v
        i = _ws(t, i)
        if t[i] == ")":
            return out, i + 1
        if not t.startswith("@@", i):
            raise ParseError(f"expected @@ or ) at {i}: {t[i:i+40]!r}")
        i += 2


def find_tuples(text, head):
    """All top-level tuples in `text` that start a line with <<"head", ... (PrintT lines)."""
    import re
    out = []
    for m in re.finditer(r'^<<\s*"' + re.escape(head) + '"', text, flags=re.M):
        try:
            v, _ = _val(text, m.start())
            out.append(v)
        except (ParseError, IndexError):
            pass
    return out


def parse_dump(path):
    """Parse a TLC `-dump` file: returns a list of states (dict var -> value)."""
    txt = open(path).read()
    states = []
    for block in txt.split("\nState ")[0:]:
        # each block: "N:\n/\ v = ...\n/\ w = ...\n"
        if "/\\" not in block:
            continue
        body = block[block.index("/\\"):]
        states.append(parse_state(body))
    return states


def parse_state(body):
    """Parse '/\\ v = val\n/\\ w = val' into a dict."""
    st = {}
    parts = body.split("\n/\\ ")
    parts[0] = parts[0].lstrip("/\\ ").lstrip()
    for p in parts:
        p = p.strip()
        if not p:
            continue
        name, _, val = p.partition(" = ")
        st[name.strip()] = parse_all(val.strip())
    return st
