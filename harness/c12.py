"""C12 - overlap lookup equals a brute-force scan.  Spec: Lookup.tla (Brute + PlusCal model of find_overlaps),
LookupScen.tla (scenario export), LookupTrace.tla (judging of recorded real calls)."""
import json
import random

from harness import common as C

TIERS = {
    "quick": dict(mc="MaxRows = 4 Lens = {1, 2, 3} Fixed = TRUE", scen="MaxRows = 4 Lens = {1, 2, 3} Fixed = TRUE",
                  live=True, rnd=3000),
    "thorough": dict(mc="MaxRows = 5 Lens = {1, 2, 3} Fixed = TRUE", scen="MaxRows = 5 Lens = {1, 2, 3} Fixed = TRUE",
                     live=False, rnd=30000),
}


def run_case(sc):
    """Execute one scenario against the real IndexedAssembly.find_overlaps and record the result."""
    from tola.assembly.fragment import Fragment
    from tola.assembly.gap import Gap
    from tola.assembly.indexed_assembly import IndexedAssembly
    from tola.assembly.scaffold import Scaffold

    rows = []
    for i, r in enumerate(sc["rows"], 1):
        if r["k"] == "F":
            rows.append(Fragment(f"f{i}", 1, r["len"], 1))
        else:
            rows.append(Gap(r["len"], "scaffold"))
    ia = IndexedAssembly("in", scaffolds=[Scaffold("s", rows)])

    def call(_):
        return ia.find_overlaps(Fragment("s", sc["a"], sc["b"], 1))

    out = C.guarded(call, None, limit=5.0)
    res = {"kind": "none", "start": 0, "end": 0, "rows": [], "exc": ""}
    if out[0] == "hang":
        res["kind"] = "hang"
    elif out[0] == "exc":
        res["kind"] = "exc"
        res["exc"] = out[1]
    elif out[1] is not None:
        o = out[1]
        res["kind"] = "ok"
        res["start"], res["end"] = int(o.start), int(o.end)
        for r in o.rows:
            if isinstance(r, Gap):
                res["rows"].append({"k": "G", "len": r.length, "idx": 0})
            else:
                res["rows"].append({"k": "F", "len": r.length, "idx": int(r.name[1:])})
    return {"tid": sc["tid"], "cls": sc.get("cls", "enum"), "rows": sc["rows"], "a": sc["a"], "b": sc["b"], "res": res}


def random_scen(rng, n):
    out = []
    for _ in range(n):
        k = rng.randint(1, 12)
        rows = []
        for i in range(1, k + 1):
            kind = rng.choice("FFG")
            rows.append({"k": kind, "len": rng.choice([1, 1, 2, 3, 5, 8, 13]), "idx": i if kind == "F" else 0})
        tot = sum(r["len"] for r in rows)
        a = rng.randint(1, tot + 3)
        b = rng.randint(a, tot + 6)
        out.append({"rows": rows, "a": a, "b": b, "cls": "random"})
    return out


def main(tier, replay=None):
    run = C.Run("C12", tier)
    cfg = TIERS[tier]
    if replay:
        rp = json.load(open(replay))
        scen = [dict(rp["trace"], tid=1)]
        traces = [run_case(s) for s in scen]
        jr = C.judge("LookupTrace", traces, run.dir, consts=cfg["scen"], spec="TraceSpec")
        n = C.report(run, "C12", jr["V"], {t["tid"]: t for t in traces})
        C.finish(run, "C12", n)
    # 1. design level: the PlusCal model of the (repaired) code satisfies Brute on every small scaffold x query
    mc_cfg = f"SPECIFICATION Spec\nCONSTANTS {cfg['mc']}\nINVARIANT Correct\n" + ("PROPERTY Terminates\n" if cfg["live"] else "")
    mc = C.tlc_ok(C.tlc("Lookup", mc_cfg, run.dir, name="MC_Lookup", args=["-coverage", "1"]), "model check")
    # 2. scenario export from the same definitions
    sc = C.tlc_ok(C.tlc("LookupScen", f"INIT ScenInit\nNEXT ScenNext\nCHECK_DEADLOCK FALSE\nCONSTRAINT Emit\nCONSTANTS {cfg['scen']}\n",
                        run.dir, name="scen", workers=1), "scenario export")
    scen = C.emitted(sc["out"])
    if len(scen) != sc["distinct"] or not scen:
        raise C.Machinery(f"scenario export: {len(scen)} scenarios parsed, TLC reports {sc['distinct']} initial states")
    rng = random.Random(C.seed())
    scen += random_scen(rng, cfg["rnd"])
    for i, s in enumerate(scen, 1):
        s["tid"] = i
    # 3. execute against the real code
    traces = C.pmap("harness.c12", "run_case", scen, chunk=2000)
    # 4. TLC judges the recorded results
    jr = C.judge("LookupTrace", traces, run.dir, consts=cfg["scen"], shard=6000, spec="TraceSpec")
    by = {t["tid"]: t for t in traces}
    n = C.report(run, "C12", jr["V"], by)
    kinds = {}
    nohit = 0
    for t in traces:
        kinds[t["res"]["kind"]] = kinds.get(t["res"]["kind"], 0) + 1
    distinct = len({json.dumps([t["rows"], t["a"], t["b"]]) for t in traces if len(t["rows"]) > 1})
    cov = {
        "states": mc["distinct"], "transitions": mc["generated"],
        "traces_validated_against_impl": jr["judged"],
        "exhaustive": True,
        "evaluations": len(traces), "distinct_nontrivial": distinct,
        "rule": "every scaffold of the bounded model (rows F/G, lengths in Lens, <= MaxRows rows) x every query 1<=a<=b<=len+2, "
                "exported by TLC from Lookup!Scaffolds/Queries, plus seeded random scaffolds of <= 12 rows; non-trivial = more than one row",
        "model_constants": cfg["mc"], "result_kinds": kinds,
        "model_drift": len(jr["M"]), "model_conformant": len(jr["M"]) == 0,
        "trace_judge_states": jr["distinct"],
        "action_coverage": C.coverage_counts(mc["out"]),
        "samples": [traces[0], traces[len(traces) // 2], traces[-1]],
        "known_findings_seen": run.known,
    }
    for m in jr["M"][:5]:
        print(f"MODEL-DRIFT action={m[2]} trace={m[1]} detail={m[3] if len(m) > 3 else ''}")
    C.write_evidence(run, "C12", cov, assumptions=[
        "TLC 1.8.0 and the CommunityModules Json/IOUtils overrides are trusted",
        "the projection in harness/c12.py run_case (Fragment/Gap -> [k,len,idx]) is trusted (15 lines)",
        "exhaustive only inside the stated bounds; beyond them seeded random sampling"])
    C.finish(run, "C12", n)
