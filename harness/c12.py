"""C12 - overlap lookup equals a brute-force scan.  Spec: Lookup.tla (Brute + PlusCal model of find_overlaps),
LookupScen.tla (scenario export), LookupTrace.tla (judging of recorded real calls)."""
import json
import random

from harness import common as C

TIERS = {
    "quick": dict(mc="MaxRows = 4 Lens = {1, 2, 3} Fixed = TRUE", scen="MaxRows = 4 Lens = {1, 2, 3} Fixed = TRUE",
                  live=True, rnd=3000),
    "thorough": dict(mc="MaxRows = 5 Lens = {1, 2, 3} Fixed = TRUE", scen="MaxRows = 5 Lens = {1, 2, 3} Fixed = TRUE",
                     live=False, rnd=30000),
}


def run_case(sc):
    """Execute one scenario against the real IndexedAssembly.find_overlaps and record the result."""
    if sc.get("cls") == "tandem-repeat":
        sc = dict(sc, tandem=1)
    from tola.assembly.fragment import Fragment
    from tola.assembly.gap import Gap
    from tola.assembly.indexed_assembly import IndexedAssembly
    from tola.assembly.scaffold import Scaffold

    rows = []
    for i, r in enumerate(sc["rows"], 1):
        if r["k"] == "F":
            # "tandem" scenarios: every fragment row is the same component interval (equal objects that are distinct rows)
            rows.append(Fragment("f0", 1, r["len"], 1) if sc.get("tandem") else Fragment(f"f{i}", 1, r["len"], 1))
        else:
            rows.append(Gap(r["len"], "scaffold"))
    ident = {id(r): i for i, r in enumerate(rows, 1)}
    ia = IndexedAssembly("in", scaffolds=[Scaffold("s", rows)])

    def call(_):
        return ia.find_overlaps(Fragment("s", sc["a"], sc["b"], 1))

    out = C.guarded(call, None, limit=5.0)
    res = {"kind": "none", "start": 0, "end": 0, "rows": [], "exc": ""}
    if out[0] == "hang":
        res["kind"] = "hang"
    elif out[0] == "exc":
        res["kind"] = "exc"
        res["exc"] = out[1]
    elif out[1] is not None:
        o = out[1]
        res["kind"] = "ok"
        res["start"], res["end"] = int(o.start), int(o.end)
        for r in o.rows:
            if isinstance(r, Gap):
                res["rows"].append({"k": "G", "len": r.length, "idx": 0})
            else:
                res["rows"].append({"k": "F", "len": r.length, "idx": ident.get(id(r), 0) if sc.get("tandem") else int(r.name[1:])})
    return {"tid": sc["tid"], "cls": sc.get("cls", "enum"), "rows": sc["rows"], "a": sc["a"], "b": sc["b"], "res": res}


def _proj(o):
    from tola.assembly.gap import Gap
    res = {"kind": "none", "start": 0, "end": 0, "rows": [], "exc": ""}
    if o is not None:
        res["kind"] = "ok"
        res["start"], res["end"] = int(o.start), int(o.end)
        for r in o.rows:
            res["rows"].append({"k": "G", "len": r.length, "idx": 0} if isinstance(r, Gap) else {"k": "F", "len": r.length, "idx": int(r.name[1:])})
    return res


def run_history(grp):
    """Histories: every ordered pair of queries on ONE IndexedAssembly object (state carried from one lookup to the next).  A second-call result
    equal to the result of the same query on a fresh object (already judged) is not recorded again; any other result is recorded and judged."""
    from tola.assembly.fragment import Fragment
    from tola.assembly.gap import Gap
    from tola.assembly.indexed_assembly import IndexedAssembly
    from tola.assembly.scaffold import Scaffold
    rows = [Fragment(f"f{i}", 1, r["len"], 1) if r["k"] == "F" else Gap(r["len"], "scaffold") for i, r in enumerate(grp["rows"], 1)]
    qs = grp["queries"]
    fresh = grp["fresh"]
    out = []

    def go(_):
        n = 0
        for q1 in qs:
            for q2 in qs:
              # mut = 1: the caller edits the first result in place before looking up again, as BuildAssembly does (trim_large_overhangs,
              # discard_start / discard_end); a lookup must not hand out state that such an edit can reach
              for mut in (0, 1):
                ia = IndexedAssembly("in", scaffolds=[Scaffold("s", rows)])
                try:
                    r1 = ia.find_overlaps(Fragment("s", q1[0], q1[1], 1))
                    if mut and r1 is not None:
                        r1.trim_large_overhangs(1)
                        if len(r1.rows) > 1:
                            r1.discard_start()
                        if len(r1.rows) > 1:
                            r1.discard_end()
                except Exception:  # noqa: BLE001
                    pass
                try:
                    res = _proj(ia.find_overlaps(Fragment("s", q2[0], q2[1], 1)))
                except Exception as e:  # noqa: BLE001
                    res = {"kind": "exc", "start": 0, "end": 0, "rows": [], "exc": type(e).__name__}
                n += 1
                if res != fresh[f"{q2[0]},{q2[1]}"] and len(out) < 50:
                    out.append({"tid": 0, "cls": f"second-lookup-after-{q1[0]}-{q1[1]}" + ("-edited" if mut else ""), "rows": grp["rows"], "a": q2[0], "b": q2[1], "res": res})
        return n
    r = C.guarded(go, None, 120.0)
    n = r[1] if r[0] == "ok" else 0
    if r[0] != "ok":
        out.append({"tid": 0, "cls": "second-lookup", "rows": grp["rows"], "a": qs[0][0], "b": qs[0][1],
                    "res": {"kind": "hang" if r[0] == "hang" else "exc", "start": 0, "end": 0, "rows": [], "exc": r[1] if r[0] == "exc" else ""}})
    return {"pairs": n, "traces": out}


def boundary_scen(rng, n):
    """scaffolds of 9 - 40 rows with 1-bp and short queries placed on the first / last base of rows (where a bisection has to decide)"""
    out = []
    for _ in range(n):
        k = rng.randint(9, 40)
        rows = []
        for i in range(1, k + 1):
            kind = rng.choice("FFG")
            rows.append({"k": kind, "len": rng.choice([1, 2, 3, 5, 8, 13]), "idx": i if kind == "F" else 0})
        ends = []
        p = 0
        for r in rows:
            ends.append((p + 1, p + r["len"]))
            p += r["len"]
        for s0, e0 in rng.sample(ends, min(len(ends), 12)):
            for a, b in ((e0, e0), (s0, s0), (e0, e0 + 1), (s0 - 1, s0), (e0 + 1, e0 + 1)):
                if 1 <= a <= b:
                    out.append({"rows": rows, "a": a, "b": b, "cls": "row-boundary-query"})
    return out


def random_scen(rng, n):
    out = []
    for _ in range(n):
        k = rng.randint(1, 12)
        rows = []
        for i in range(1, k + 1):
            kind = rng.choice("FFG")
            rows.append({"k": kind, "len": rng.choice([1, 1, 2, 3, 5, 8, 13]), "idx": i if kind == "F" else 0})
        tot = sum(r["len"] for r in rows)
        a = rng.randint(1, tot + 3)
        b = rng.randint(a, tot + 6)
        out.append({"rows": rows, "a": a, "b": b, "cls": "random"})
    return out


def main(tier, replay=None):
    run = C.Run("C12", tier)
    cfg = TIERS[tier]
    if replay:
        rp = json.load(open(replay))
        scen = [dict(rp["trace"], tid=1)]
        traces = [run_case(s) for s in scen]
        jr = C.judge("LookupTrace", traces, run.dir, consts=cfg["scen"], spec="TraceSpec")
        n = C.report(run, "C12", jr["V"], {t["tid"]: t for t in traces})
        C.finish(run, "C12", n)
    # 1. design level: the PlusCal model of the (repaired) code satisfies Brute on every small scaffold x query
    mc_cfg = f"SPECIFICATION Spec\nCONSTANTS {cfg['mc']}\nINVARIANT Correct\n" + ("PROPERTY Terminates\n" if cfg["live"] else "")
    mc = C.tlc_ok(C.tlc("Lookup", mc_cfg, run.dir, name="MC_Lookup", args=["-coverage", "1"]), "model check")
    # 2. scenario export from the same definitions
    sc = C.tlc_ok(C.tlc("LookupScen", f"INIT ScenInit\nNEXT ScenNext\nCHECK_DEADLOCK FALSE\nCONSTRAINT Emit\nCONSTANTS {cfg['scen']}\n",
                        run.dir, name="scen", workers=1), "scenario export")
    scen = C.emitted(sc["out"])
    if len(scen) != sc["distinct"] or not scen:
        raise C.Machinery(f"scenario export: {len(scen)} scenarios parsed, TLC reports {sc['distinct']} initial states")
    rng = random.Random(C.seed())
    scen += random_scen(rng, cfg["rnd"])
    scen += boundary_scen(rng, cfg["rnd"] // 30)
    # tandem repeats: a sample of the scenarios with every fragment row naming the same component interval
    for x in rng.sample(scen, min(len(scen), cfg["rnd"])):
        if sum(1 for r in x["rows"] if r["k"] == "F") > 1:
            scen.append({"rows": x["rows"], "a": x["a"], "b": x["b"], "cls": "tandem-repeat", "tandem": 1})
    for i, s in enumerate(scen, 1):
        s["tid"] = i
    # 3. execute against the real code
    traces = C.pmap("harness.c12", "run_case", scen, chunk=2000)
    # 3b. histories: all ordered pairs of queries on one shared IndexedAssembly (scaffolds of <= 3 rows in the quick tier, <= 4 thorough)
    groups = {}
    for t in traces:
        if t["cls"] == "enum" and len(t["rows"]) <= (3 if tier == "quick" else 4):
            g = groups.setdefault(json.dumps(t["rows"]), {"rows": t["rows"], "queries": [], "fresh": {}})
            g["queries"].append([t["a"], t["b"]])
            g["fresh"][f"{t['a']},{t['b']}"] = t["res"]
    hist = C.pmap("harness.c12", "run_history", list(groups.values()), chunk=20)
    pair_lookups = sum(h["pairs"] for h in hist)
    extra = [x for h in hist for x in h["traces"]]
    for i, x in enumerate(extra, len(traces) + 1):
        x["tid"] = i
    traces += extra
    # 4. TLC judges the recorded results
    jr = C.judge("LookupTrace", traces, run.dir, consts=cfg["scen"], shard=6000, spec="TraceSpec")
    by = {t["tid"]: t for t in traces}
    n = C.report(run, "C12", jr["V"], by)
    kinds = {}
    nohit = 0
    for t in traces:
        kinds[t["res"]["kind"]] = kinds.get(t["res"]["kind"], 0) + 1
    distinct = len({json.dumps([t["rows"], t["a"], t["b"]]) for t in traces if len(t["rows"]) > 1})
    cov = {
        "states": mc["distinct"], "transitions": mc["generated"],
        "traces_validated_against_impl": jr["judged"],
        "exhaustive": True,
        "evaluations": len(traces), "distinct_nontrivial": distinct,
        "rule": "every scaffold of the bounded model (rows F/G, lengths in Lens, <= MaxRows rows) x every query 1<=a<=b<=len+2, "
                "exported by TLC from Lookup!Scaffolds/Queries, plus seeded random scaffolds of <= 12 rows; histories: every ordered pair of queries on one shared object for the small scaffolds "
                "(a second result differing from the fresh-object result is judged); non-trivial = more than one row",
        "model_constants": cfg["mc"], "result_kinds": kinds, "second_lookups_on_a_shared_object": pair_lookups,
        "second_lookups_differing_from_fresh_result": len(extra),
        "model_drift": len(jr["M"]), "model_conformant": len(jr["M"]) == 0,
        "trace_judge_states": jr["distinct"],
        "action_coverage": C.coverage_counts(mc["out"]),
        "samples": [traces[0], traces[len(traces) // 2], traces[-1]],
        "known_findings_seen": run.known,
    }
    for m in jr["M"][:5]:
        print(f"MODEL-DRIFT action={m[2]} trace={m[1]} detail={m[3] if len(m) > 3 else ''}")
    C.write_evidence(run, "C12", cov, assumptions=[
        "TLC 1.8.0 and the CommunityModules Json/IOUtils overrides are trusted",
        "the projection in harness/c12.py run_case (Fragment/Gap -> [k,len,idx]) is trusted (15 lines)",
        "exhaustive only inside the stated bounds; beyond them seeded random sampling"])
    C.finish(run, "C12", n)
