---- MODULE DeterminismTrace ----
(***************************************************************************************************)
(* Trace validation for C17: one trace = one executed history                                      *)
(*   [tid, mode, runs |-> <<[inp, fmt, seed, cwd, cache, buf, exit, files, asm]>>, ref_files,      *)
(*    ref_asm]  - files / asm are digests of all output files (log with directory names removed)   *)
(* and of the output assemblies row for row; ref_* are the digests of the canonical cold run of    *)
(* the same (input, format) / input, taken in a fresh process with PYTHONHASHSEED=0.               *)
(***************************************************************************************************)
EXTENDS Naturals, Sequences, TLC, Json, IOUtils, TLCExt
Traces == JsonDeserialize(IOEnv.TRACE_FILE)
ASSUME TLCSet(1, 0) /\ TLCSet(2, 0)
VARIABLE tn
Say(T, clause, detail) == PrintT(<<"V", T.tid, clause, detail>>)
What(r, q) == (IF q > 1 /\ r.cache = "keep" /\ r.fmt = "fa" THEN "warm-cache" ELSE "cold") \o "/seed=" \o r.seed \o "/cwd=" \o r.cwd \o "/buf=" \o ToString(r.buf)
Judge(T) ==
  /\ TLCSet(1, TLCGet(1) + 1) /\ TLCSet(2, TLCGet(2) + Len(T.runs))
  /\ \A q \in 1..Len(T.runs) : LET r == T.runs[q] IN
       /\ (r.exit = 0 \/ Say(T, "C17.same_input_same_output", T.mode \o "/run-failed"))
       /\ (r.files = r.ref_files \/ Say(T, "C17.same_input_same_output", T.mode \o "/" \o What(r, q)))
       /\ (r.asm = r.ref_asm \/ Say(T, "C17.format_independent", T.mode \o "/" \o r.fmt))
TInit == tn = 0
TNext == tn < Len(Traces) /\ tn' = tn + 1 /\ Judge(Traces[tn + 1]) = TRUE
TraceSpec == TInit /\ [][TNext]_tn
Post == PrintT(<<"JUDGED", TLCGet(1)>>) /\ PrintT(<<"N", "runs", TLCGet(2)>>)
====
