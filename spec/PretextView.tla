---- MODULE PretextView ----
(***************************************************************************************************)
(* The scenario model for the remapper (C01, C02, C07 - C11): input assemblies and the Pretext     *)
(* maps PretextView can produce from them.                                                         *)
(*                                                                                                 *)
(* Texel size t = TN/TD bp (a rational; the AGP header prints it exactly).  ErrLen = 1 + floor(t), *)
(* Margin = 3 * ErrLen.  An input scaffold of length L is shown with T texels, T in {floor(L/t),   *)
(* ceil(L/t)} (T = 0: absent from the map, or shown with one texel).  Texel boundary k lies at     *)
(* scaffold coordinate B(k) = floor(k * t); a piece [i, j) of source scaffold s is the bait        *)
(* B(i)+1 .. B(j), forward or reversed.                                                            *)
(*                                                                                                 *)
(* State: map = sequence of Pretext scaffolds ("groups") [painted, pieces]; initially one          *)
(* unpainted single-piece group per input scaffold present.  Each action is one curation gesture:  *)
(* Cut (both sides >= MinTex texels), Flip, MoveWithin, MoveInto, SplitOff, SwapGroups, Paint.     *)
(* Behaviours are edit scripts, states are maps (VIEW hides the edit counter).                     *)
(* Perturbations (Mode = "perturb", C01 only) leave the class PretextView can produce: Drop, Dup,  *)
(* ShiftA/ShiftB of a bait end by a few bp (overlaps, holes, out-of-range ends), Ghost (a bait     *)
(* naming a scaffold that does not exist).                                                         *)
(***************************************************************************************************)
EXTENDS Rows, TLC, Json
CONSTANTS TN, TD, MinTex, MaxEdits, MaxPieces, NRandom, Mode, MaxPerturb, NameStyle

ErrLen == 1 + TN \div TD
Margin == 3 * ErrLen
B(k) == (k * TN) \div TD

\* ------------------------------------------------------------------ input shapes
\* a scaffold shape is a sequence of <<kind, len>>: "+" / "-" contig, "g" scaffold-type gap, "h" contig-type gap
LenPool == {1, 2, ErrLen, 2 * ErrLen - 1, Margin + 1, 2 * Margin + 3, 2 * Margin + ErrLen + 4}
GapPool == {1, ErrLen, 200}
C(kd, n) == <<kd, n>>
Big == 2 * Margin + ErrLen + 4
Mid == 2 * Margin + 3
\* hand-picked shapes: the thresholds of the code (1 texel, ErrLen, 3 * ErrLen) straddled by contig and gap lengths
\* (d shifts the chain against the texel grid, so that some texel boundary splits the second tiny contig into two parts shorter than ErrLen)
TinyChain(d) == << <<C("+", Big + d), C("g", 2 * ErrLen), C("+", MaxI(1, ErrLen - 2)), C("g", 2 * ErrLen), C("+", ErrLen + 1), C("g", 2 * ErrLen), C("+", Mid),
                    C("g", 2 * ErrLen), C("+", Big)>> >>
\* a scaffold one base short of KR + 1 texels, where texel KR + 1 happens to be ErrLen bp wide (only fractional texel sizes have such a texel): shown
\* with KR texels, the bases the map does not show number exactly ErrLen, and the last contig (one more) keeps a single base inside the map
RoundTexels == {k \in 3..40 : B(k + 1) - B(k) = ErrLen}
KR == IF RoundTexels = {} THEN 0 ELSE CHOOSE k \in RoundTexels : \A j \in RoundTexels : k <= j
EndRounding == IF KR = 0 THEN << <<C("+", Big), C("h", 1), C("+", ErrLen + 1)>> >>
               ELSE << <<C("+", B(KR + 1) - ErrLen - 2), C("h", 1), C("+", ErrLen + 1)>> >>
FixedShapes == {
   EndRounding,
   << <<C("+", Big)>> >>,
   << <<C("-", Big)>> >>,
   << <<C("+", Big), C("g", 200), C("+", Mid)>> >>,
   << <<C("+", Mid), C("h", 1), C("-", Big)>> >>,
   << <<C("-", Mid), C("g", ErrLen), C("-", Mid)>> >>,
   << <<C("+", Mid), C("g", 200), C("+", ErrLen)>> >>,
   << <<C("+", Mid), C("g", 1), C("+", 2), C("g", 1), C("+", 1)>> >>,
   << <<C("+", Margin + 1), C("+", Margin + 1)>> >>,
   << <<C("+", Big)>>, <<C("+", Mid)>> >>,
   << <<C("+", Mid), C("g", 200), C("-", Mid)>>, <<C("-", Margin + 1)>> >>,
   << <<C("+", Big)>>, <<C("+", 2)>> >>,
   << <<C("+", Mid), C("g", 200), C("+", Mid)>>, <<C("+", 1)>>, <<C("+", Mid)>> >>,
   << <<C("g", 2), C("+", Mid), C("g", 200), C("+", Mid), C("g", 1)>> >>,
   << <<C("+", Mid), C("g", 1), C("g", 200), C("+", Mid)>> >>,
   \* two consecutive sub-texel contigs between large ones (a piece boundary inside the second one makes both pieces hold it by less than
   \* ErrLen; a further cut in a large contig makes the overhang resolution run a second round)
   TinyChain(0), TinyChain(1), TinyChain(2), TinyChain(3),
   \* tiny scaffolds (absent from the map when shorter than a texel) whose rows do not simply alternate contig / gap
   << <<C("+", Big)>>, <<C("g", 1), C("+", 1), C("h", 1), C("+", 1)>> >>,
   << <<C("+", Big)>>, <<C("+", 1), C("+", 1), C("g", 1), C("-", 1)>> >>,
   << <<C("+", Mid), C("g", 200), C("+", Mid)>>, <<C("+", 1), C("h", 1), C("g", 1), C("+", 2)>> >> }
RandRow(i) == IF i % 2 = 1 THEN C(RandomElement({"+", "+", "-"}), RandomElement(LenPool)) ELSE C(RandomElement({"g", "g", "h"}), RandomElement(GapPool))
\* (operators with a dummy parameter: TLC would evaluate a parameterless definition once and cache it)
RandScaffold(x) == LET n == RandomElement({1, 2, 3}) IN
                   SelectSeq([i \in 1..(2 * n - 1) |-> IF i % 2 = 0 /\ RandomElement(1..6) = 1 THEN C("x", 0) ELSE RandRow(i)], LAMBDA r : r[1] # "x")
RandShape(x) == [s \in 1..RandomElement({1, 2, 3}) |-> RandScaffold(s)]
\* shapes for the tagging scenarios (Mode = "tagged"): few, because the tag combinatorics is what is explored there
TagShapes == {
   << <<C("+", Big), C("g", 200), C("+", Mid)>>, <<C("+", Mid)>> >>,
   << <<C("+", Big)>>, <<C("-", Mid), C("g", 1), C("+", Mid)>>, <<C("+", 2)>> >> }
\* Mode "tagperturb": tagging gestures followed by perturbations (slivers of tagged pieces, tagged baits that overlap) - outside what
\* PretextView produces, inside what C01 / C11 quantify over
Tagging == Mode \in {"tagged", "tagperturb"}
Shapes == (IF Tagging THEN TagShapes ELSE FixedShapes) \cup {RandShape(x) : x \in 1..NRandom}

ShapeLen(sh) == FoldLeft(LAMBDA a, r : a + r[2], 0, sh)
\* concrete rows.  naming "fasta": contig name = scaffold name, contig coordinates = scaffold coordinates (as derived from a
\* FASTA file); only for all-forward shapes with scaffold-type gaps.  naming "free": own contig names and offsets.  naming "shared":
\* the contigs of a scaffold are pieces of one earlier-cut contig (same name, consecutive coordinates, either strand).
IsFastaLike(shape) == \A s \in 1..Len(shape) : \A q \in 1..Len(shape[s]) : shape[s][q][1] \in {"+", "g"}
\* NameStyle "plain": S1, S2, ... ; "hap": scaffolds alternate between two haplotypes, named as the haplotype-resolved assemblies
\* are (the haplotype is the part before the first underscore, compared case-insensitively)
\* "hap3": three haplotypes in turn
\* "trio": haplotypes named after the parents (Mat / Pat) - haplotype names need not end in a digit
\* (the second haplotype's names carry a further "_1", as scaffolds of an assembly that was curated before do: hap2_scaffold_2_1)
ScName(s) == IF NameStyle = "hap" THEN (IF s % 2 = 1 THEN "HAP1_SCAFFOLD_" \o ToString(s) ELSE "hap2_scaffold_" \o ToString(s) \o "_1")
             ELSE IF NameStyle = "trio" THEN (IF s % 2 = 1 THEN "MAT_SCAFFOLD_" ELSE "pat_scaffold_") \o ToString(s)
             ELSE IF NameStyle = "hap3" THEN (IF s % 3 = 1 THEN "HAP1_SCAFFOLD_" ELSE IF s % 3 = 2 THEN "hap2_scaffold_" ELSE "Hap3_Scaffold_") \o ToString(s)
             ELSE "S" \o ToString(s)
HapOf(s) == IF NameStyle = "hap" THEN (IF s % 2 = 1 THEN "hap1" ELSE "hap2")
            ELSE IF NameStyle = "trio" THEN (IF s % 2 = 1 THEN "mat" ELSE "pat")
            ELSE IF NameStyle = "hap3" THEN (IF s % 3 = 1 THEN "hap1" ELSE IF s % 3 = 2 THEN "hap2" ELSE "hap3") ELSE ""
ConcreteRows(shape, s, naming) ==
  LET sh == shape[s] IN
  [q \in 1..Len(sh) |->
     LET before == ShapeLen(SubSeq(sh, 1, q - 1)) IN
     IF sh[q][1] \in {"g", "h"} THEN GapRow(IF sh[q][1] = "g" THEN "scaffold" ELSE "contig", sh[q][2])
     ELSE IF naming = "fasta" THEN Frag(ScName(s), before + 1, before + sh[q][2], 1)
     ELSE IF naming = "shared" THEN Frag(ScName(s) \o "x", before + 1, before + sh[q][2], IF sh[q][1] = "+" THEN 1 ELSE -1)
     ELSE Frag(ScName(s) \o (IF NameStyle \in {"hap", "hap3", "trio"} THEN "_" ELSE "c") \o ToString(q), 3 * q + 1, 3 * q + sh[q][2], IF sh[q][1] = "+" THEN 1 ELSE -1)]
Concrete(shape, naming) == [s \in 1..Len(shape) |-> [name |-> ScName(s), rows |-> ConcreteRows(shape, s, naming)]]

\* ------------------------------------------------------------------ state
VARIABLES shape, naming, tex, map, edits, perturbs
pvars == <<shape, naming, tex, map, edits, perturbs>>
View == <<shape, naming, tex, map, perturbs>>
Piece(s, i, j, r) == [src |-> s, i |-> i, j |-> j, rev |-> r, da |-> 0, db |-> 0, ghost |-> FALSE, tags |-> <<>>]
TexChoices(L) == LET fl == (L * TD) \div TN  ce == (L * TD + TN - 1) \div TN IN IF fl = 0 THEN {0, 1} ELSE {fl, ce}
NullMap(tx) == LET present == SelectSeq([s \in 1..Len(tx) |-> s], LAMBDA s : tx[s] > 0)
               IN [g \in 1..Len(present) |-> [painted |-> FALSE, pieces |-> <<Piece(present[g], 0, tx[present[g]], FALSE)>>]]
Init == /\ shape \in Shapes
        /\ naming \in (IF IsFastaLike(shape) THEN {"fasta", "free"} ELSE {"free", "shared"})
        /\ tex \in {tx \in [1..Len(shape) -> UNION {TexChoices(ShapeLen(shape[s])) : s \in 1..Len(shape)}] :
                         \A s \in 1..Len(shape) : tx[s] \in TexChoices(ShapeLen(shape[s]))}
        /\ \E s \in 1..Len(shape) : tex[s] > 0
        \* (tagging starts from the unedited map with no or with every scaffold painted: a chromosome-level assembly)
        /\ map \in (IF Mode = "null" \/ Tagging THEN {NullMap(tex), [g \in 1..Len(NullMap(tex)) |-> [NullMap(tex)[g] EXCEPT !.painted = TRUE]]} ELSE {NullMap(tex)})
        /\ edits = 0 /\ perturbs = 0

NPieces == FoldLeft(LAMBDA a, g : a + Len(g.pieces), 0, map)
RemoveAtSeq(sq, k) == SubSeq(sq, 1, k - 1) \o SubSeq(sq, k + 1, Len(sq))
InsertAtSeq(sq, k, e) == SubSeq(sq, 1, k - 1) \o <<e>> \o SubSeq(sq, k, Len(sq))
Bump == edits < MaxEdits /\ perturbs = 0 /\ edits' = edits + 1 /\ UNCHANGED <<shape, naming, tex, perturbs>>

\* cut positions worth trying: texel boundaries within Margin + 1 bp of a contig boundary of the source scaffold, the
\* extreme legal positions, and the middle of every contig (elsewhere the code cannot tell positions apart)
Boundaries(s) == LET sh == shape[s] IN {ShapeLen(SubSeq(sh, 1, q)) : q \in 0..Len(sh)}
Mids(s) == LET sh == shape[s] IN {ShapeLen(SubSeq(sh, 1, q - 1)) + (sh[q][2] \div 2) : q \in 1..Len(sh)}
CutPoints(pc) == {k \in (pc.i + MinTex)..(pc.j - MinTex) :
                    IF Tagging
                    THEN \/ \E c \in Boundaries(pc.src) : B(k) <= c /\ c < B(k + 1)
                         \/ \E m \in Mids(pc.src) : B(k) <= m /\ m < B(k + 1)
                    ELSE \/ k = pc.i + MinTex \/ k = pc.j - MinTex
                         \/ \E c \in Boundaries(pc.src) : Abs(B(k) - c) <= Margin + 1
                         \/ \E m \in Mids(pc.src) : B(k) <= m /\ m < B(k + 1)}

Cut(g, p, k) ==
  LET grp == map[g]  pc == grp.pieces[p]
      a == [pc EXCEPT !.j = k]  b == [pc EXCEPT !.i = k]
      two == IF pc.rev THEN <<b, a>> ELSE <<a, b>>
  IN /\ Bump /\ NPieces < MaxPieces
     /\ IF grp.painted \/ Len(grp.pieces) > 1
        THEN map' = [map EXCEPT ![g].pieces = SubSeq(grp.pieces, 1, p - 1) \o two \o SubSeq(grp.pieces, p + 1, Len(grp.pieces))]
        ELSE map' = SubSeq(map, 1, g - 1) \o <<[painted |-> FALSE, pieces |-> <<two[1]>>], [painted |-> FALSE, pieces |-> <<two[2]>>]>> \o SubSeq(map, g + 1, Len(map))
Flip(g, p) == ~Tagging /\ Bump /\ map' = [map EXCEPT ![g].pieces[p].rev = ~@]
MoveInto(g, p, h, q) ==
  /\ Bump /\ g # h
  /\ LET pc == map[g].pieces[p]
         m1 == [map EXCEPT ![h].pieces = InsertAtSeq(@, q, pc), ![g].pieces = RemoveAtSeq(@, p)]
     IN map' = SelectSeq(m1, LAMBDA x : Len(x.pieces) > 0)
MoveWithin(g, p, q) == ~Tagging /\ Bump /\ p # q /\ map' = [map EXCEPT ![g].pieces = InsertAtSeq(RemoveAtSeq(@, p), q, map[g].pieces[p])]
SplitOff(g, p) ==
  /\ ~Tagging /\ Bump /\ Len(map[g].pieces) > 1
  /\ map' = SubSeq(map, 1, g - 1) \o <<[map[g] EXCEPT !.pieces = RemoveAtSeq(@, p)], [painted |-> map[g].painted, pieces |-> <<map[g].pieces[p]>>]>>
            \o SubSeq(map, g + 1, Len(map))
SwapGroups(g) == ~Tagging /\ Bump /\ g < Len(map) /\ map' = [map EXCEPT ![g] = map[g + 1], ![g + 1] = map[g]]
Paint(g) == Bump /\ map' = [map EXCEPT ![g].painted = ~@]
\* tagging gestures (Mode = "tagged"): at most one of Haplotig / Contaminant / FalseDuplicate per piece, Target on any piece,
\* a haplotype tag on the first piece of a painted scaffold whose source belongs to that haplotype
RouteTags == {"Haplotig", "Contaminant", "FalseDuplicate"}
HasAny(pc, S) == \E q \in 1..Len(pc.tags) : pc.tags[q] \in S
TagRoute(g, p, tg) == /\ Tagging /\ Bump /\ ~HasAny(map[g].pieces[p], RouteTags)
                      /\ map' = [map EXCEPT ![g].pieces[p].tags = Append(@, tg)]
TagTarget(g, p) == /\ Tagging /\ Bump /\ ~HasAny(map[g].pieces[p], {"Target"})
                   /\ \A q \in 1..Len(map[g].pieces) : ~HasAny(map[g].pieces[q], {"Target"})
                   /\ map' = [map EXCEPT ![g].pieces[p].tags = Append(@, "Target")]
HapSpellings(s) == IF HapOf(s) = "hap1" THEN {"HAP1", "Hap1"} ELSE IF HapOf(s) = "hap2" THEN {"hap2", "HAP2"} ELSE IF HapOf(s) = "hap3" THEN {"Hap3", "HAP3"}
                   ELSE IF HapOf(s) = "mat" THEN {"MAT", "Mat"} ELSE {"pat", "Pat"}
AllHapTags == {"HAP1", "Hap1", "hap2", "HAP2", "Hap3", "HAP3", "MAT", "Mat", "pat", "Pat"}
\* haplotype of a Pretext scaffold: its haplotype tag, or else the one in the name of its first piece's source
TagHapOf(tg) == IF tg \in {"HAP1", "Hap1"} THEN "hap1" ELSE IF tg \in {"hap2", "HAP2"} THEN "hap2" ELSE IF tg \in {"Hap3", "HAP3"} THEN "hap3"
                ELSE IF tg \in {"MAT", "Mat"} THEN "mat" ELSE "pat"
\* "Primary ... is used to tag the first 'Painted' chromosome in the curated haplotype": once in a map, on the first piece of a painted
\* scaffold, and no earlier scaffold of the map belongs to the same haplotype
HasPrimary == \E g \in 1..Len(map) : \E q \in 1..Len(map[g].pieces) : HasAny(map[g].pieces[q], {"Primary"})
TagPrimary(g) == /\ Tagging /\ NameStyle \in {"hap", "hap3", "trio"} /\ Bump /\ map[g].painted /\ ~HasPrimary
                 /\ \A h \in 1..(g - 1) : HapOf(map[h].pieces[1].src) # HapOf(map[g].pieces[1].src)
                 /\ \A q \in 1..Len(map[g].pieces) : ~HasAny(map[g].pieces[q], RouteTags \cup {"Target"})
                 /\ map' = [map EXCEPT ![g].pieces[1].tags = Append(@, "Primary")]
TagHap(g, sp) == /\ Tagging /\ NameStyle \in {"hap", "hap3", "trio"} /\ Bump /\ map[g].painted
                 /\ \A q \in 1..Len(map[g].pieces) : Len(map[g].pieces[q].tags) = 0 \/ HasAny(map[g].pieces[q], RouteTags \cup {"Target"})
                 /\ \A q \in 1..Len(map[g].pieces) : ~HasAny(map[g].pieces[q], AllHapTags)
                 /\ sp \in HapSpellings(map[g].pieces[1].src)
                 /\ map' = [map EXCEPT ![g].pieces[1].tags = Append(@, sp)]
Gesture == \E g \in 1..Len(map) :
             \/ \E sp \in AllHapTags : TagHap(g, sp)
             \/ TagPrimary(g)
             \/ \E p \in 1..Len(map[g].pieces) : TagTarget(g, p) \/ \E tg \in RouteTags : TagRoute(g, p, tg)
             \/ Paint(g) \/ SwapGroups(g)
             \/ \E p \in 1..Len(map[g].pieces) :
                  \/ Flip(g, p) \/ SplitOff(g, p)
                  \/ \E k \in CutPoints(map[g].pieces[p]) : Cut(g, p, k)
                  \/ \E q \in 1..Len(map[g].pieces) : MoveWithin(g, p, q)
                  \/ \E h \in 1..Len(map) : \E q \in 1..(Len(map[h].pieces) + 1) : MoveInto(g, p, h, q)

\* ------------------------------------------------------------------ perturbations (outside what PretextView can produce)
PBump == Mode \in {"perturb", "tagperturb"} /\ perturbs < MaxPerturb /\ perturbs' = perturbs + 1 /\ UNCHANGED <<shape, naming, tex, edits>>
Deltas == {-(ErrLen + 1), -1, 1, ErrLen + 1, Margin + 2}
BaitA(pc) == B(pc.i) + 1 + pc.da
BaitB(pc) == B(pc.j) + pc.db
Drop(g, p) == PBump /\ NPieces > 1 /\ map' = SelectSeq([map EXCEPT ![g].pieces = RemoveAtSeq(@, p)], LAMBDA x : Len(x.pieces) > 0)
Dup(g, p) == PBump /\ map' = Append(map, [painted |-> FALSE, pieces |-> <<map[g].pieces[p]>>])
ShiftA(g, p, d) == PBump /\ BaitA(map[g].pieces[p]) + d >= 1 /\ BaitA(map[g].pieces[p]) + d <= BaitB(map[g].pieces[p])
                   /\ map' = [map EXCEPT ![g].pieces[p].da = @ + d]
ShiftB(g, p, d) == PBump /\ BaitB(map[g].pieces[p]) + d >= BaitA(map[g].pieces[p]) /\ map' = [map EXCEPT ![g].pieces[p].db = @ + d]
Ghost(g, p) == PBump /\ ~map[g].pieces[p].ghost /\ map' = [map EXCEPT ![g].pieces[p].ghost = TRUE]
Perturb == \E g \in 1..Len(map) : \E p \in 1..Len(map[g].pieces) :
             Drop(g, p) \/ Dup(g, p) \/ Ghost(g, p) \/ \E d \in Deltas : ShiftA(g, p, d) \/ ShiftB(g, p, d)

Next == Gesture \/ Perturb
Spec == Init /\ [][Next]_pvars

\* ------------------------------------------------------------------ rendering for export
PieceOut(pc) == [src |-> IF pc.ghost THEN "Nowhere" ELSE ScName(pc.src), a |-> BaitA(pc), b |-> BaitB(pc), st |-> IF pc.rev THEN -1 ELSE 1, tags |-> pc.tags]
MapOut == [g \in 1..Len(map) |-> [painted |-> IF map[g].painted THEN 1 ELSE 0, pieces |-> [p \in 1..Len(map[g].pieces) |-> PieceOut(map[g].pieces[p])]]]
\* consistent use of the Primary tag in the finished map: on the first piece of a painted scaffold, no earlier scaffold belongs to the same
\* haplotype (the tool learns which haplotype is the primary one when it reads that scaffold), and Target mode does not discard that scaffold
\* haplotype of a Pretext scaffold as the tool reads it: a haplotype tag on any of its pieces, else the name of its first piece's source
GHapTags(grp) == {t \in AllHapTags : \E q \in 1..Len(grp.pieces) : HasAny(grp.pieces[q], {t})}
GHap(grp) == IF GHapTags(grp) # {} THEN TagHapOf(CHOOSE t \in GHapTags(grp) : TRUE) ELSE HapOf(grp.pieces[1].src)
TargetBy(g) == \E h \in 1..g : \E q \in 1..Len(map[h].pieces) : HasAny(map[h].pieces[q], {"Target"})
PrimaryOK == \A g \in 1..Len(map) : (\E q \in 1..Len(map[g].pieces) : HasAny(map[g].pieces[q], {"Primary"})) =>
               /\ map[g].painted /\ HasAny(map[g].pieces[1], {"Primary"})
               /\ \A h \in 1..(g - 1) : GHap(map[h]) # GHap(map[g])
               /\ (TargetBy(g) => \E q \in 1..Len(map[g].pieces) : HasAny(map[g].pieces[q], {"Target"}))
               /\ ~HasAny(map[g].pieces[1], RouteTags)
Scenario == [primary_ok |-> IF PrimaryOK THEN 1 ELSE 0, tn |-> TN, td |-> TD, naming |-> naming, input |-> Concrete(shape, naming), map |-> MapOut,
             valid |-> IF perturbs = 0 THEN 1 ELSE 0, edits |-> edits, tex |-> tex, style |-> NameStyle, haps |-> [s \in 1..Len(shape) |-> HapOf(s)]]
Emit == PrintT(ToJson(Scenario))
\* type/shape invariant of the model itself: pieces of valid maps tile every present source scaffold's texel range
TilesOK == perturbs = 0 =>
   \A s \in 1..Len(shape) : tex[s] > 0 =>
      LET ps == {<<g, p>> \in (1..Len(map)) \X (1..MaxPieces) : p <= Len(map[g].pieces) /\ map[g].pieces[p].src = s}
      IN /\ FoldSet(LAMBDA x, acc : acc + (map[x[1]].pieces[x[2]].j - map[x[1]].pieces[x[2]].i), 0, ps) = tex[s]
         /\ \A x \in ps : LET w == map[x[1]].pieces[x[2]].j - map[x[1]].pieces[x[2]].i IN w >= MinTex \/ w = tex[s]
====
