---- MODULE OutputFiles ----
(***************************************************************************************************)
(* Which files pretext-to-asm writes, and what they are called (scripts/pretext_to_asm.py:         *)
(* parse_output_file, name_assemblies, write_assemblies, write_chr_csv_files,                      *)
(* write_chr_report_csv, write_info_yaml), as a function of the assemblies the library returns.    *)
(*                                                                                                 *)
(*   A = <<[key, curated, chr]>>  the output assemblies in dictionary order: key ("" = the         *)
(*       unnamed primary assembly), curated flag, chr = holds a chromosome or unloc scaffold       *)
(*   root, ver, ext               from the -o argument <root>.<ver>.<ext>                          *)
(*                                                                                                 *)
(* From the comments of name_assemblies:                                                           *)
(*   a map with a Primary tag   <root>.<ver>.primary.curated      the Primary haplotype            *)
(*                              <root>.<ver>.all_haplotigs.curated  every other curated assembly   *)
(*   a single-haplotype map     <root>.<ver>.primary.curated                                       *)
(*                              <root>.<ver>.additional_haplotigs.curated   Haplotig-tagged        *)
(*   several haplotypes         <root>.<hap>.<ver>.primary.curated  one per haplotype              *)
(*   every other assembly       <root>.<ver>.<key, lower case>s  (haplotigs, contaminants, ...)    *)
(* plus <name>.chromosome.list.csv for every curated assembly with chromosomes,                    *)
(* <root>.<ver>.chr_report.csv if there is any chromosome, and <root>.<ver>.info.yaml always.      *)
(***************************************************************************************************)
EXTENDS Naturals, Sequences, FiniteSets, TLC
LcKey(k) == CASE k = "Haplotig" -> "haplotig" [] k = "Contaminant" -> "contaminant" [] k = "FalseDuplicate" -> "falseduplicate"
              [] k \in {"HAP1", "Hap1", "hap1"} -> "hap1" [] k \in {"hap2", "HAP2", "Hap2"} -> "hap2" [] k \in {"Hap3", "HAP3", "hap3"} -> "hap3"
              [] k \in {"MAT", "Mat", "mat"} -> "mat" [] k \in {"pat", "Pat", "PAT"} -> "pat"
              [] k = "Primary" -> "primary" [] OTHER -> k
FileMode(A) == IF \E q \in 1..Len(A) : A[q].key = "Primary" THEN "primary" ELSE IF \E q \in 1..Len(A) : A[q].key = "" THEN "single" ELSE "multi"
Base(root, ver) == root \o "." \o ver
\* the named assemblies: set of [stem, curated, chr]
NamedAsms(A, root, ver) ==
  LET m == FileMode(A)  b == Base(root, ver)
      other(a) == [stem |-> b \o "." \o LcKey(a.key) \o "s", curated |-> a.curated, chr |-> a.chr]
  IN IF m = "primary" THEN
       LET merged == {q \in 1..Len(A) : A[q].key # "Primary" /\ A[q].curated = 1} IN
       {[stem |-> b \o ".primary", curated |-> A[q].curated, chr |-> A[q].chr] : q \in {x \in 1..Len(A) : A[x].key = "Primary"}}
       \cup {other(A[q]) : q \in {x \in 1..Len(A) : A[x].key # "Primary" /\ A[x].curated = 0}}
       \cup (IF merged = {} THEN {} ELSE {[stem |-> b \o ".all_haplotigs", curated |-> 1, chr |-> IF \E q \in merged : A[q].chr = 1 THEN 1 ELSE 0]})
     ELSE IF m = "single" THEN
       {IF A[q].key = "" THEN [stem |-> b \o ".primary", curated |-> A[q].curated, chr |-> A[q].chr]
        ELSE IF A[q].key = "Haplotig" THEN [stem |-> b \o ".additional_haplotigs", curated |-> 1, chr |-> A[q].chr]
        ELSE other(A[q]) : q \in 1..Len(A)}
     ELSE
       {IF A[q].curated = 1 THEN [stem |-> root \o "." \o LcKey(A[q].key) \o "." \o ver \o ".primary", curated |-> 1, chr |-> A[q].chr]
        ELSE other(A[q]) : q \in 1..Len(A)}
ExpectedFiles(A, root, ver, ext) ==
  LET N == NamedAsms(A, root, ver) IN
  {n.stem \o (IF n.curated = 1 THEN ".curated" ELSE "") \o "." \o ext : n \in N}
  \cup {n.stem \o ".chromosome.list.csv" : n \in {x \in N : x.curated = 1 /\ x.chr = 1}}
  \cup (IF \E n \in N : n.chr = 1 THEN {Base(root, ver) \o ".chr_report.csv"} ELSE {})
  \cup {Base(root, ver) \o ".info.yaml"}
====
