---- MODULE Rows ----
(***************************************************************************************************)
(* Rows of a scaffold as used throughout the specification.  One record shape for both kinds, so   *)
(* that TLC never compares records with different fields:                                          *)
(*   fragment  [k |-> "F", name |-> contig, s |-> start, e |-> end, st |-> 1 | -1 | 0]             *)
(*   gap       [k |-> "G", name |-> gap type, s |-> 1, e |-> length, st |-> 0]                      *)
(* Scaffold coordinates are 1-based and inclusive, as in AGP.                                      *)
(***************************************************************************************************)
EXTENDS Naturals, Integers, Sequences, FiniteSets, FiniteSetsExt, SequencesExt

Frag(name, s, e, st) == [k |-> "F", name |-> name, s |-> s, e |-> e, st |-> st]
GapRow(type, len) == [k |-> "G", name |-> type, s |-> 1, e |-> len, st |-> 0]
IsGap(r) == r.k = "G"
IsFrag(r) == r.k = "F"
RowLen(r) == r.e - r.s + 1

SumLen(rows) == FoldLeft(LAMBDA a, r : a + RowLen(r), 0, rows)
\* scaffold coordinate of the first / last base of row i
RStart(rows, i) == SumLen(SubSeq(rows, 1, i - 1)) + 1
REnd(rows, i) == SumLen(SubSeq(rows, 1, i))

MaxI(a, b) == IF a > b THEN a ELSE b
MinI(a, b) == IF a < b THEN a ELSE b
Abs(x) == IF x < 0 THEN -x ELSE x
\* number of integers common to [a1,b1] and [a2,b2]
Common(a1, b1, a2, b2) == LET lo == MaxI(a1, a2)  hi == MinI(b1, b2) IN IF hi < lo THEN 0 ELSE hi - lo + 1

FragIdx(rows) == {i \in 1..Len(rows) : IsFrag(rows[i])}
\* length of the run of gap rows that follows row 1 / precedes the last row
GapRunAfterFirst(rows) ==
  LET n == Len(rows)
      stop == {i \in 2..n : IsFrag(rows[i])}
      last == IF stop = {} THEN n ELSE Min(stop) - 1
  IN SumLen(SubSeq(rows, 2, last))
GapRunBeforeLast(rows) ==
  LET n == Len(rows)
      stop == {i \in 1..(n - 1) : IsFrag(rows[i])}
      first == IF stop = {} THEN 1 ELSE Max(stop) + 1
  IN SumLen(SubSeq(rows, first, n - 1))

ReverseRows(rows) == [i \in 1..Len(rows) |-> LET r == rows[Len(rows) + 1 - i] IN IF IsFrag(r) THEN [r EXCEPT !.st = -r.st] ELSE r]
====
