---- MODULE Reports ----
(***************************************************************************************************)
(* The reports pretext-to-asm derives from the output assemblies (assembly_stats.py), as functions *)
(* of the recorded outputs of one execution on a Chromosomes.tla scenario.  None of the listed      *)
(* properties speaks about them directly (C10 covers the chromosome *list*, C11 the three totals);  *)
(* they are part of the system's behaviour a curator reads, so the specification states what they  *)
(* must say, and the judge reports a difference as model drift (M), never as a property violation.  *)
(*                                                                                                 *)
(*   T.report = <<[asm, name, chr, loc, orig, len, lmg]>>   the rows of <out>.chr_report.csv       *)
(*   T.pas    = <<[asm, breaks, joins]>>                    per-assembly manual breaks / joins     *)
(*   T.inkeys = <<"" | "hap1" | ...>>                       assembly prefix of every input scaffold *)
(*   T.sanity = [mismatch |-> 0/1, large |-> <<haplotig names>>]   the two sanity warnings         *)
(***************************************************************************************************)
EXTENDS NamingProps

\* ------------------------------------------------------------------ chromosome report
\* one row per chromosome or unloc scaffold (rank 1 or 2) of every curated assembly, in output order
ReportSubjects(T) == SelectSeq([o \in 1..Len(T.out) |-> o], LAMBDA o : T.out[o].rank \in {1, 2} /\ T.out[o].asm \in CuratedAsms(T))
AsmLabel(a) == IF a = "" THEN "Primary" ELSE a
\* (group and role of every subject are computed once per trace: G[q], Rl[q])
ChrReportMatches(T) ==
  LET sq == ReportSubjects(T)
      Mp == [q \in 1..Len(sq) |-> IsMapped(T, sq[q])]
      G == [q \in 1..Len(sq) |-> IF Mp[q] THEN GroupOfOut(T, sq[q]) ELSE 0]
      Rl == [q \in 1..Len(sq) |-> IF Mp[q] THEN RoleOfOut(T, sq[q]) ELSE "none"]
      RowOk(q) == LET row == T.report[q]  s == T.out[sq[q]] IN
        /\ row.asm = AsmLabel(s.asm)
        /\ row.name = s.name
        /\ Mp[q]
        \* "chromosome" is the name of the chromosome the scaffold belongs to, without the autosome prefix
        /\ Pfx(T) \o row.chr = NameOfGroup(T, G[q])
        \* localised = false exactly for unlocalised scaffolds
        /\ row.loc = (IF Rl[q] = "unloc" THEN "false" ELSE "true")
        /\ row.len = SumLen(s.rows)
        /\ row.lmg = SumLen(Frags(s.rows))
  IN
  /\ Len(T.report) = Len(sq)
  /\ \A q \in 1..Len(sq) : RowOk(q)
  \* the Pretext scaffold column: the same for a chromosome and its unlocs, different between chromosomes
  /\ \A q1, q2 \in 1..Len(sq) : (G[q1] = G[q2]) <=> (T.report[q1].orig = T.report[q2].orig)

\* ------------------------------------------------------------------ per-assembly breaks and joins
\* (assembly_stats.make_stats: "Breaks are junctions which were in the input, but are not in this assembly ... intersected with the total
\*  set of breaks"; "Joins are anything new in this assembly compared to the input which is also in the total set of joins".
\*  With Out_a a subset of Out these are  In_a \ Out  and  Out_a \ In.)
InOf(T, k) == LET idx == SelectSeq([i \in 1..Len(T.input) |-> i], LAMBDA i : T.inkeys[i] = k) IN [q \in 1..Len(idx) |-> T.input[idx[q]]]
OutOfAsm(T, alc) == SelectSeq(T.out, LAMBDA s : s.asm_lc = alc)
InAdj(T, k) == AdjSet(AllJunctions(InOf(T, k)))
PasKeys(T) == {T.out[o].asm_lc : o \in 1..Len(T.out)} \cap {k \in Range(T.inkeys) : InAdj(T, k) # {}}
PasBreaks(T, k) == Cardinality(InAdj(T, k) \ AdjSet(AllJunctions(T.out)))
PasJoins(T, k) == Cardinality(AdjSet(AllJunctions(OutOfAsm(T, k))) \ AdjSet(AllJunctions(T.input)))
PasMatches(T) ==
  /\ {T.pas[q].asm_lc : q \in 1..Len(T.pas)} = PasKeys(T)
  /\ \A q \in 1..Len(T.pas) : T.pas[q].asm_lc \in PasKeys(T) => (T.pas[q].breaks = PasBreaks(T, T.pas[q].asm_lc) /\ T.pas[q].joins = PasJoins(T, T.pas[q].asm_lc))
\* every break is a break of exactly one input assembly: the per-assembly breaks add up to the total when every input scaffold with junctions has a key that is written
PasBreaksAddUp(T) == (\A k \in Range(T.inkeys) : InAdj(T, k) = {} \/ k \in PasKeys(T)) =>
  FoldSet(LAMBDA k, acc : acc + PasBreaks(T, k), 0, PasKeys(T)) = T.stats.breaks

\* ------------------------------------------------------------------ sanity warnings
\* per output scaffold, once per trace: is it a piece of the map, of which group, in which role; its sequence length
OutInfo(T) == [o \in 1..Len(T.out) |-> LET mp == IsMapped(T, o) IN
                 [mp |-> mp, g |-> IF mp THEN GroupOfOut(T, o) ELSE 0, role |-> IF mp THEN RoleOfOut(T, o) ELSE "none", fl |-> SumLen(Frags(T.out[o].rows))]]
SanityMatches(T) ==
  LET I == OutInfo(T)
      \* number of autosomes (numbered chromosomes, unlocs not counted) per curated assembly
      AutosomeCount(a) == Cardinality({o \in 1..Len(T.out) : T.out[o].asm = a /\ T.out[o].rank = 1 /\ I[o].mp /\ I[o].role = "main"})
      WithAutosomes == {a \in CuratedAsms(T) : AutosomeCount(a) > 0}
      MismatchExpected == \E a, b \in WithAutosomes : AutosomeCount(a) # AutosomeCount(b)
      \* sequence length of a chromosome: its scaffold plus its unlocs, gaps not counted
      Chrs == {<<T.out[o].asm, I[o].g>> : o \in {x \in 1..Len(T.out) : T.out[x].rank \in {1, 2} /\ T.out[x].asm # "Haplotig" /\ I[x].mp}}
      ChrSeqLen(c) == FoldSet(LAMBDA o, acc : acc + I[o].fl, 0, {o \in 1..Len(T.out) : T.out[o].asm = c[1] /\ T.out[o].rank \in {1, 2} /\ I[o].mp /\ I[o].g = c[2]})
      ChrLens == {ChrSeqLen(c) : c \in Chrs}
      LargeExpected == IF ChrLens = {} THEN {} ELSE {T.out[o].name : o \in {x \in 1..Len(T.out) : T.out[x].asm = "Haplotig" /\ I[x].fl > Min(ChrLens)}}
  IN /\ (T.sanity.mismatch = 1) <=> MismatchExpected
     /\ Range(T.sanity.large) = LargeExpected
====
