---- MODULE Reports ----
(***************************************************************************************************)
(* The reports pretext-to-asm derives from the output assemblies (assembly_stats.py), as functions *)
(* of the recorded outputs of one execution on a Chromosomes.tla scenario.  None of the listed      *)
(* properties speaks about them directly (C10 covers the chromosome *list*, C11 the three totals);  *)
(* they are part of the system's behaviour a curator reads, so the specification states what they  *)
(* must say, and the judge reports a difference as model drift (M), never as a property violation.  *)
(*                                                                                                 *)
(*   T.report = <<[asm, name, chr, loc, orig, len, lmg]>>   the rows of <out>.chr_report.csv       *)
(*   T.pas    = <<[asm, breaks, joins]>>                    per-assembly manual breaks / joins     *)
(*   T.inkeys = <<"" | "hap1" | ...>>                       assembly prefix of every input scaffold *)
(*   T.sanity = [mismatch |-> 0/1, large |-> <<haplotig names>>]   the two sanity warnings         *)
(***************************************************************************************************)
EXTENDS NamingProps

\* ------------------------------------------------------------------ chromosome report
\* one row per chromosome or unloc scaffold (rank 1 or 2) of every curated assembly, in output order
ReportSubjects(T) == SelectSeq([o \in 1..Len(T.out) |-> o], LAMBDA o : T.out[o].rank \in {1, 2} /\ T.out[o].asm \in CuratedAsms(T))
AsmLabel(a) == IF a = "" THEN "Primary" ELSE a
ReportRowOk(T, row, o) ==
  LET s == T.out[o]  g == GroupOfOut(T, o) IN
  /\ row.asm = AsmLabel(s.asm)
  /\ row.name = s.name
  /\ IsMapped(T, o)
  \* "chromosome" is the name of the chromosome the scaffold belongs to, without the autosome prefix
  /\ Pfx(T) \o row.chr = NameOfGroup(T, g)
  \* localised = false exactly for unlocalised scaffolds
  /\ row.loc = (IF RoleOfOut(T, o) = "unloc" THEN "false" ELSE "true")
  /\ row.len = SumLen(s.rows)
  /\ row.lmg = SumLen(Frags(s.rows))
\* the Pretext scaffold column: the same for a chromosome and its unlocs, different between chromosomes
ReportOrigOk(T) == \A q1, q2 \in 1..Len(T.report) :
  LET sq == ReportSubjects(T) IN (GroupOfOut(T, sq[q1]) = GroupOfOut(T, sq[q2])) <=> (T.report[q1].orig = T.report[q2].orig)
ChrReportMatches(T) ==
  LET sq == ReportSubjects(T) IN
  /\ Len(T.report) = Len(sq)
  /\ \A q \in 1..Len(sq) : ReportRowOk(T, T.report[q], sq[q])
  /\ ReportOrigOk(T)

\* ------------------------------------------------------------------ per-assembly breaks and joins
\* (assembly_stats.make_stats: "Breaks are junctions which were in the input, but are not in this assembly ... intersected with the total
\*  set of breaks"; "Joins are anything new in this assembly compared to the input which is also in the total set of joins".
\*  With Out_a a subset of Out these are  In_a \ Out  and  Out_a \ In.)
InOf(T, k) == LET idx == SelectSeq([i \in 1..Len(T.input) |-> i], LAMBDA i : T.inkeys[i] = k) IN [q \in 1..Len(idx) |-> T.input[idx[q]]]
OutOfAsm(T, alc) == SelectSeq(T.out, LAMBDA s : s.asm_lc = alc)
InAdj(T, k) == AdjSet(AllJunctions(InOf(T, k)))
PasKeys(T) == {T.out[o].asm_lc : o \in 1..Len(T.out)} \cap {k \in Range(T.inkeys) : InAdj(T, k) # {}}
PasBreaks(T, k) == Cardinality(InAdj(T, k) \ AdjSet(AllJunctions(T.out)))
PasJoins(T, k) == Cardinality(AdjSet(AllJunctions(OutOfAsm(T, k))) \ AdjSet(AllJunctions(T.input)))
PasMatches(T) ==
  /\ {T.pas[q].asm_lc : q \in 1..Len(T.pas)} = PasKeys(T)
  /\ \A q \in 1..Len(T.pas) : T.pas[q].asm_lc \in PasKeys(T) => (T.pas[q].breaks = PasBreaks(T, T.pas[q].asm_lc) /\ T.pas[q].joins = PasJoins(T, T.pas[q].asm_lc))
\* every break is a break of exactly one input assembly: the per-assembly breaks add up to the total when every input scaffold with junctions has a key that is written
PasBreaksAddUp(T) == (\A k \in Range(T.inkeys) : InAdj(T, k) = {} \/ k \in PasKeys(T)) =>
  FoldSet(LAMBDA k, acc : acc + PasBreaks(T, k), 0, PasKeys(T)) = T.stats.breaks

\* ------------------------------------------------------------------ sanity warnings
\* number of autosomes (numbered chromosomes, unlocs not counted) per curated assembly
AutosomeCount(T, a) == Cardinality({o \in Range(AsmSeq(T, a)) : T.out[o].rank = 1 /\ IsMapped(T, o) /\ RoleOfOut(T, o) = "main"})
AsmsWithAutosomes(T) == {a \in CuratedAsms(T) : AutosomeCount(T, a) > 0}
MismatchExpected(T) == \E a, b \in AsmsWithAutosomes(T) : AutosomeCount(T, a) # AutosomeCount(T, b)
\* sequence length of a chromosome: its scaffold plus its unlocs, gaps not counted
ChrSeqLen(T, a, g) == FoldSet(LAMBDA o, acc : acc + SumLen(Frags(T.out[o].rows)), 0,
                             {o \in Range(AsmSeq(T, a)) : T.out[o].rank \in {1, 2} /\ IsMapped(T, o) /\ GroupOfOut(T, o) = g})
ChrLens(T) == {ChrSeqLen(T, T.out[o].asm, GroupOfOut(T, o)) : o \in {x \in 1..Len(T.out) : T.out[x].rank \in {1, 2} /\ T.out[x].asm # "Haplotig" /\ IsMapped(T, x)}}
LargeExpected(T) == IF ChrLens(T) = {} THEN {} ELSE
  {T.out[o].name : o \in {x \in 1..Len(T.out) : T.out[x].asm = "Haplotig" /\ SumLen(Frags(T.out[x].rows)) > Min(ChrLens(T))}}
SanityMatches(T) == /\ (T.sanity.mismatch = 1) <=> MismatchExpected(T)
                    /\ Range(T.sanity.large) = LargeExpected(T)
====
