---- MODULE AsmFormatCli ----
(***************************************************************************************************)
(* The asm-format command line tool as a function of its arguments (scripts/asm_format.py):        *)
(*   input files (0 = read STDIN) with their extensions, -i / --input-format, -o / --output-file,  *)
(*   -f / --format, -n / --name.                                                                   *)
(* Resolution rules, from the help texts:                                                          *)
(*   input format  = -i if given, else from each file's extension, else AGP (STDIN: -i or AGP)     *)
(*   output format = -f if given, else from the output file's extension, else AGP                  *)
(*   assembly name = -n if given, else the file's stem, else "stdin"                               *)
(*   the output is the inputs, each parsed and written in the output format, one after the other,  *)
(*   into the output file if one is given and to STDOUT otherwise                                  *)
(* Option values are case-insensitive.  An extension that names another format (fa, fasta) makes   *)
(* the run fail ("Unknown ... format"), which the model states as well.                            *)
(* Every input file of a scenario holds assembly number a[i] of AsmPool, written in the format the *)
(* rules resolve for it (so that parsing succeeds); the judge compares the real output with the    *)
(* concatenation of FormatAGP / FormatTPF of the pool assemblies.                                  *)
(***************************************************************************************************)
EXTENDS AgpTpf, Json
VARIABLE sc

Upper(x) == CASE x = "agp" -> "AGP" [] x = "tpf" -> "TPF" [] x = "str" -> "STR" [] x = "repr" -> "REPR" [] OTHER -> x
\* format named by a file extension (the letters after the last dot; agp / tpf in either case, also followed by word characters)
ExtFormat(ext) == CASE ext \in {"agp", "AGP", "agp2"} -> "AGP" [] ext \in {"tpf", "TPF"} -> "TPF" [] ext \in {"fa", "fasta"} -> "FASTA" [] OTHER -> ""
InFormat(opt_i, ext) == IF opt_i # "" THEN Upper(opt_i) ELSE IF ExtFormat(ext) # "" THEN ExtFormat(ext) ELSE "AGP"
OutFormat(opt_f, oext) == IF opt_f # "" THEN Upper(opt_f) ELSE IF oext # "" /\ ExtFormat(oext) # "" THEN ExtFormat(oext) ELSE "AGP"
AsmName(opt_n, stem) == IF opt_n # "" THEN opt_n ELSE stem

\* two small assemblies both formats can carry
AsmPool == << [header |-> <<"DESCRIPTION: one">>,
               scaffolds |-> << [name |-> "s1", rows |-> <<FragT("a", 1, 9, 1, <<>>), GapT("scaffold", 200), FragT("c:1-2", 10, 10, -1, <<>>)>>],
                                [name |-> "chr 2", rows |-> <<FragT("x-y.1", 9, 10, 1, <<>>)>>] >>],
             [header |-> <<>>,
               scaffolds |-> << [name |-> "N", rows |-> <<FragT("U", 100, 600, -1, <<>>), GapT("contig", 1), GapT("centromere", 200), FragT("a", 1, 9, 1, <<>>)>>] >>] >>
InExts == {"agp", "tpf", "txt", "AGP"}
OutExts == {"", "agp", "tpf", "txt", "fa"}          \* "" = no -o: STDOUT
OptI == {"", "AGP", "TPF", "tpf"}
OptF == {"", "AGP", "TPF", "STR", "REPR", "tpf", "agp"}
OptN == {"", "myasm"}
Files == {<<>>} \cup {<<[ext |-> e, a |-> n]>> : e \in InExts, n \in 1..2}
               \cup {<<[ext |-> e1, a |-> 1], [ext |-> e2, a |-> 2]>> : e1 \in InExts, e2 \in InExts}
Init == sc \in [files : Files, i : OptI, o : OutExts, f : OptF, n : OptN, stdin_asm : {1}] /\ asm = 0
Next == FALSE /\ UNCHANGED <<sc, asm>>
\* ---- expected behaviour of a scenario
NInputs(s) == IF s.files = <<>> THEN 1 ELSE Len(s.files)
InFmtOf(s, k) == IF s.files = <<>> THEN (IF s.i # "" THEN Upper(s.i) ELSE "AGP") ELSE InFormat(s.i, s.files[k].ext)
AsmOf(s, k) == IF s.files = <<>> THEN AsmPool[s.stdin_asm] ELSE AsmPool[s.files[k].a]
StemOf(s, k) == IF s.files = <<>> THEN "stdin" ELSE "in" \o ToString(k)
Fails(s) == OutFormat(s.f, s.o) \notin {"AGP", "TPF", "STR", "REPR"} \/ \E k \in 1..NInputs(s) : InFmtOf(s, k) \notin {"AGP", "TPF"}
ExpectedLines(s) == LET F(a) == IF OutFormat(s.f, s.o) = "AGP" THEN FormatAGP(a) ELSE FormatTPF(a)
                        Acc[k \in 0..NInputs(s)] == IF k = 0 THEN <<>> ELSE Acc[k - 1] \o F(AsmOf(s, k))
                    IN Acc[NInputs(s)]
ExpectedNames(s) == [k \in 1..NInputs(s) |-> AsmName(s.n, StemOf(s, k))]
\* (exported with the resolved input formats and the pool assemblies, so that the harness can write each input file in the format the rules resolve)
Emit == PrintT(ToJson([sc |-> sc, infmts |-> [k \in 1..NInputs(sc) |-> InFmtOf(sc, k)], asms |-> [k \in 1..NInputs(sc) |-> AsmOf(sc, k)]]))

\* the model itself: the text written for AGP -> TPF -> AGP of a pool assembly is the AGP text again (both formats carry the pool)
PoolOK == \A n \in 1..Len(AsmPool) : TpfExpressible(AsmPool[n]) /\ DistinctAdjacentNames(AsmPool[n])
====
