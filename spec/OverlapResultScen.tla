---- MODULE OverlapResultScen ----
(* Scenario export for C18: every initial state (source scaffold, bait with a non-empty lookup) of the *)
(* bounded OverlapResult model, and the operation alphabet.  CONSTRAINT Emit, -workers 1.              *)
EXTENDS OverlapResult, Json
Emit == PrintT(ToJson([src |-> src, a |-> ba, b |-> bb]))
ScenNext == FALSE /\ UNCHANGED vars
OpSeq == SetToSeq(Ops)
ASSUME PrintT(ToJson(OpSeq))
====
