---- MODULE LookupTrace ----
(***************************************************************************************************)
(* Trace validation for C12.  Each trace is one real call of IndexedAssembly.find_overlaps:        *)
(*   [tid, rows, a, b, res |-> [kind, start, end, rows, exc]]                                      *)
(* kind = "none" | "ok" | "exc" | "hang".  For every trace the PlusCal model of the code is run    *)
(* from the trace's input; at pc = "Done" two judgements are made on the RECORDED result:          *)
(*   P-clause C12.brute : the real result equals the brute-force definition (the property)        *)
(*   M-clause find_overlaps : the real result equals what the implementation-shaped model computes *)
(***************************************************************************************************)
EXTENDS Lookup, Json, IOUtils, TLCExt
Traces == JsonDeserialize(IOEnv.TRACE_FILE)
ASSUME TLCSet(1, 0)
VARIABLES tid, judged
tvars == <<vars, tid, judged>>

TInit == /\ tid \in 1..Len(Traces)
         /\ judged = FALSE
         /\ rows = Traces[tid].rows /\ qa = Traces[tid].a /\ qb = Traces[tid].b
         /\ n = Len(rows) /\ a = 0 /\ z = n /\ m = 0 /\ ovr = -1 /\ i = 0 /\ j = 0 /\ iovr = 0 /\ jovr = 0
         /\ result = [none |-> TRUE] /\ err = "" /\ pc = "bs"

\* does the recorded result `r` equal the abstract result `x` (None or [lo,hi,start,end]) ?
Same(r, x) == IF x.none THEN r.kind = "none"
              ELSE r.kind = "ok" /\ r.start = x.start /\ r.end = x.end /\ r.rows = SubSeq(rows, x.lo, x.hi)

Detail(r, x) == (IF x.none THEN "nohit" ELSE "hit") \o "/" \o
                (IF r.kind = "exc" THEN "exc:" \o r.exc ELSE IF r.kind = "ok" /\ x.none THEN "spurious"
                 ELSE IF r.kind = "none" THEN "missed" ELSE IF r.kind = "hang" THEN "hang" ELSE "wrong-rows-or-span")

Judge == /\ pc = "Done" /\ ~judged /\ judged' = TRUE
         /\ UNCHANGED <<vars, tid>>
         /\ LET T == Traces[tid]  x == Brute(rows, qa, qb)
                mod == IF err # "" THEN T.res.kind = "exc" /\ T.res.exc = err ELSE Same(T.res, result)
            IN (/\ (Same(T.res, x) \/ PrintT(<<"V", T.tid, "C12.brute", Detail(T.res, x)>>))
                /\ (mod \/ PrintT(<<"M", T.tid, "find_overlaps", Detail(T.res, x)>>))
                /\ TLCSet(1, TLCGet(1) + 1)) = TRUE   \* "= TRUE": an expression, not an action TLC would split at each \/

TNext == (Next /\ pc # "Done" /\ UNCHANGED <<tid, judged>>) \/ Judge
TraceSpec == TInit /\ [][TNext]_tvars
Post == PrintT(<<"JUDGED", TLCGet(1)>>)
====
