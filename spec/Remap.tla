---- MODULE Remap ----
(***************************************************************************************************)
(* The remapping pipeline of BuildAssembly as the code performs it, one operator per step:         *)
(*   FindPhase   for every Pretext piece: lookup, TrimLarge (trim_large_overhangs), store the      *)
(*               overlap result and record which contigs it holds (found, multi)                   *)
(*   Resolve     rounds of OverhangResolver.make_fixes over the contigs held by more than one      *)
(*               result: "both overlaps < ErrLen -> shortest overlap loses", else best-delta       *)
(*               improves / next makes worse with the -3 * ErrLen guard; until a round fixes nothing*)
(*   CutPhase    cut_fragments: order holders by fragment_start_if_trimmed, keep flags (swapped    *)
(*               for reverse-strand contigs), trim_fragment, sub-fragment QC                       *)
(*   Leftover    add_missing_scaffolds_from_input (gap choice between non-consecutive left-overs)  *)
(*   Fuse        scaffolds_fused_by_name (join gap; a minus bait reverses and strand-flips)        *)
(* Names are structural (<<"P", g>> painted Pretext scaffold g, <<"U", src>> unpainted: keeps the   *)
(* name of its first piece's source); tags and haplotypes are not modelled here (NamingProps.tla   *)
(* and PieceDest in RemapProps.tla state their effect).  The model is used (a) for conformance:    *)
(* RemapTrace.tla compares status, cut count and fused rows of every untagged real run with        *)
(* Pipeline(...), and (b) at design level: RemapMC.tla checks the property predicates of           *)
(* RemapProps.tla on the model's own output for every map PretextView.tla reaches.                 *)
(***************************************************************************************************)
EXTENDS Rows, TLC, Functions
Key(r) == <<r.name, r.s, r.e>>
RevRows(rows) == ReverseRows(rows)
JoinGapRow == GapRow("scaffold", 200)

\* ---------- lookup (definition level = repaired find_overlaps) ----------
StartsOf(rows) == [i \in 1..Len(rows) |-> 1 + SumLen(SubSeq(rows, 1, i - 1))]
PLookup(rows, a, b) ==
  LET st == StartsOf(rows)
      hit == {i \in 1..Len(rows) : IsFrag(rows[i]) /\ st[i] + RowLen(rows[i]) - 1 >= a /\ st[i] <= b}
  IN IF hit = {} THEN [none |-> TRUE]
     ELSE [none |-> FALSE, start |-> st[Min(hit)], end |-> st[Max(hit)] + RowLen(rows[Max(hit)]) - 1,
           rows |-> SubSeq(rows, Min(hit), Max(hit))]

\* ---------- overlap result ----------
StartOv(o) == o.bait.a - o.start
EndOv(o) == o.end - o.bait.b
Ov(a1, b1, a2, b2) == LET s == MaxI(a1, a2) e == MinI(b1, b2) IN IF e < s THEN 0 ELSE e - s + 1
StartRowOv(o) == Ov(o.bait.a, o.bait.b, o.start, o.start + RowLen(o.rows[1]) - 1)
EndRowOv(o) == Ov(o.bait.a, o.bait.b, o.end - RowLen(Last(o.rows)) + 1, o.end)
LeadGaps(rows, from) == LET idx == {i \in from..Len(rows) : IsFrag(rows[i])} IN
                        IF idx = {} THEN Len(rows) - from + 1 ELSE Min(idx) - from
TrailGaps(rows, upto) == LET idx == {i \in 1..upto : IsFrag(rows[i])} IN
                         IF idx = {} THEN upto ELSE upto - Max(idx)
PDiscardStart(o) == LET k == 1 + LeadGaps(o.rows, 2) IN
   [o EXCEPT !.rows = SubSeq(o.rows, k + 1, Len(o.rows)), !.start = o.start + SumLen(SubSeq(o.rows, 1, k))]
PDiscardEnd(o) == LET n == Len(o.rows) k == 1 + TrailGaps(o.rows, n - 1) IN
   [o EXCEPT !.rows = SubSeq(o.rows, 1, n - k), !.end = o.end - SumLen(SubSeq(o.rows, n - k + 1, n))]
OvIfStartRemoved(o) == o.bait.a - PDiscardStart(o).start
OvIfEndRemoved(o) == PDiscardEnd(o).end - o.bait.b
PTrimLarge(o, E) ==
  IF Len(o.rows) = 1 /\ (o.bait.b - o.bait.a + 1) > E THEN o
  ELSE LET o1 == IF StartOv(o) > E /\ StartRowOv(o) < E THEN PDiscardStart(o) ELSE o
       IN IF o1.rows = <<>> THEN o1
          ELSE IF EndOv(o1) > E /\ EndRowOv(o1) < E THEN PDiscardEnd(o1) ELSE o1

\* ---------- phase 1: find ----------
\* state: [ors, found (key -> Seq(id)), multi (Seq(key))]
SrcRows(input, n) == (CHOOSE s \in Range(input) : s.name = n).rows
StoreOR(st, oid, o) ==
  FoldLeft(LAMBDA a, r :
     IF ~IsFrag(r) THEN a
     ELSE LET kk == Key(r) IN
          IF kk \in DOMAIN a.found
          THEN [a EXCEPT !.found[kk] = Append(@, oid), !.multi = IF Contains(@, kk) THEN @ ELSE Append(@, kk)]
          ELSE [a EXCEPT !.found = (kk :> <<oid>>) @@ @],
     st, o.rows)
Pieces(map) == FoldLeft(LAMBDA a, g : a \o [i \in 1..Len(map[g].pieces) |-> [g |-> g, p |-> map[g].pieces[i]]], <<>>, [i \in 1..Len(map) |-> i])
FindPhase(input, map, E) ==
  FoldLeft(LAMBDA st, gp :
     LET pc == gp.p  lk == PLookup(SrcRows(input, pc.src), pc.a, pc.b) IN
     IF lk.none THEN st
     ELSE LET o0 == [bait |-> pc, g |-> gp.g, start |-> lk.start, end |-> lk.end, rows |-> lk.rows,
                     name |-> IF map[gp.g].painted = 1 THEN <<"P", gp.g>> ELSE <<"U", map[gp.g].pieces[1].src>>]
              o == PTrimLarge(o0, E)
          IN IF o.rows = <<>> THEN st
             ELSE LET oid == Len(st.ors) + 1 IN StoreOR([st EXCEPT !.ors = Append(@, o)], oid, o),
     [ors |-> <<>>, found |-> <<>>, multi |-> <<>>], Pieces(map))

\* ---------- phase 2: resolve shared terminal contigs ----------
PremOf(ors, kk, oid) == LET o == ors[oid] IN
   IF IsFrag(o.rows[1]) /\ Key(o.rows[1]) = kk THEN <<[oid |-> oid, side |-> "S"]>>
   ELSE IF IsFrag(Last(o.rows)) /\ Key(Last(o.rows)) = kk THEN <<[oid |-> oid, side |-> "E"]>>
   ELSE <<>>
Prems(ors, found, kk) == FoldLeft(LAMBDA a, oid : a \o PremOf(ors, kk, oid), <<>>, found[kk])
BaitOv(ors, p) == IF p.side = "S" THEN StartRowOv(ors[p.oid]) ELSE EndRowOv(ors[p.oid])
OvIfApplied(ors, p) == IF p.side = "S" THEN OvIfStartRemoved(ors[p.oid]) ELSE OvIfEndRemoved(ors[p.oid])
Delta(ors, p) == Abs(OvIfApplied(ors, p)) - Abs(IF p.side = "S" THEN StartOv(ors[p.oid]) ELSE EndOv(ors[p.oid]))
Improves(ors, p, E) == Len(ors[p.oid].rows) # 1 /\ Delta(ors, p) < 0 /\ OvIfApplied(ors, p) > -3 * E
Apply(ors, p) == [ors EXCEPT ![p.oid] = IF p.side = "S" THEN PDiscardStart(@) ELSE PDiscardEnd(@)]
\* index of the stable minimum of f over a set of indices
ArgMin(idx, f(_)) == CHOOSE i \in idx : \A j \in idx : f(i) < f(j) \/ (f(i) = f(j) /\ i <= j)
FixKey(acc, kp, E) ==    \* acc = [ors, applied]; kp = [key, prems]
  LET ps == kp.prems  n == Len(ps)  ors == acc.ors IN
  IF n = 2 /\ BaitOv(ors, ps[1]) < E /\ BaitOv(ors, ps[2]) < E
  THEN LET w == IF BaitOv(ors, ps[1]) < BaitOv(ors, ps[2]) THEN ps[1] ELSE ps[2]
       IN [ors |-> Apply(ors, w), applied |-> Append(acc.applied, [key |-> kp.key, oid |-> w.oid])]
  ELSE IF n > 1
  THEN LET d(i) == Delta(ors, ps[i])
           b == ArgMin(1..n, d)
           x == ArgMin((1..n) \ {b}, d)
       IN IF Improves(ors, ps[b], E) /\ ~Improves(ors, ps[x], E)
          THEN [ors |-> Apply(ors, ps[b]), applied |-> Append(acc.applied, [key |-> kp.key, oid |-> ps[b].oid])]
          ELSE acc
  ELSE acc
DropFirst(s, x) == LET i == Min({j \in 1..Len(s) : s[j] = x}) IN SubSeq(s, 1, i - 1) \o SubSeq(s, i + 1, Len(s))
Round(st, E) ==
  LET kps == SelectSeq([i \in 1..Len(st.multi) |-> [key |-> st.multi[i], prems |-> Prems(st.ors, st.found, st.multi[i])]],
                       LAMBDA kp : Len(kp.prems) > 0)
      r == FoldLeft(LAMBDA acc, kp : FixKey(acc, kp, E), [ors |-> st.ors, applied |-> <<>>], kps)
      st2 == FoldLeft(LAMBDA a, ap :
                IF ~Contains(a.multi, ap.key) THEN a
                ELSE LET ids == DropFirst(a.found[ap.key], ap.oid) IN
                     [a EXCEPT !.found[ap.key] = ids,
                               !.multi = IF Len(ids) <= 1 THEN SelectSeq(@, LAMBDA q : q # ap.key) ELSE @],
                [st EXCEPT !.ors = r.ors], r.applied)
  IN [st |-> st2, nfix |-> Len(r.applied)]
RECURSIVE Resolve(_, _)
Resolve(st, E) == IF st.multi = <<>> THEN st
                  ELSE LET r == Round(st, E) IN IF r.nfix = 0 THEN r.st ELSE Resolve(r.st, E)

\* ---------- phase 3: cut ----------
FragByKey(input, kk) == CHOOSE r \in UNION {Range(s.rows) : s \in Range(input)} : IsFrag(r) /\ Key(r) = kk
StartIfTrimmed(o, f) ==
  IF f.st = 1 THEN (IF o.rows[1] = f THEN f.s + StartOv(o) ELSE f.s)
  ELSE (IF Last(o.rows) = f THEN f.s + EndOv(o) ELSE f.s)
\* returns [ok, o, sub]
PTrimFragment(o, f, keepS, keepE, SwapRev) ==
  LET atS == o.rows[1] = f   atE == Last(o.rows) = f
      sov == StartOv(o)  doS == atS /\ sov > 0 /\ ~keepS
      s1 == IF doS /\ f.st = 1 THEN f.s + sov ELSE f.s
      e1 == IF doS /\ f.st # 1 THEN f.e - sov ELSE f.e
      start1 == IF doS THEN o.start + sov ELSE o.start
      eov == o.end - o.bait.b   doE == atE /\ eov > 0 /\ ~keepE
      s2 == IF doE /\ f.st # 1 THEN s1 + eov ELSE s1
      e2 == IF doE /\ f.st = 1 THEN e1 - eov ELSE e1
      end2 == IF doE THEN o.end - eov ELSE o.end
      nf == [f EXCEPT !.s = s2, !.e = e2]
      idx == IF atE THEN Len(o.rows) ELSE 1
  IN IF ~(atS \/ atE) \/ s2 > e2 THEN [ok |-> FALSE]
     ELSE [ok |-> TRUE, sub |-> nf, o |-> [o EXCEPT !.start = start1, !.end = end2, !.rows[idx] = nf]]
StableSortIds(ids, f(_)) ==   \* insertion sort, stable
  FoldLeft(LAMBDA acc, x : LET pos == Cardinality({j \in 1..Len(acc) : f(acc[j]) <= f(x)}) IN
                           SubSeq(acc, 1, pos) \o <<x>> \o SubSeq(acc, pos + 1, Len(acc)), <<>>, ids)
CutKey(acc, kk, input, FixRev) ==      \* acc = [ors, cuts, ok]
  IF ~acc.ok THEN acc ELSE
  LET f == FragByKey(input, kk)
      ids == acc.found[kk]
      ord == StableSortIds(ids, LAMBDA id : StartIfTrimmed(acc.ors[id], f))
      n == Len(ord)
      step == FoldLeft(LAMBDA a, i :
                 IF ~a.ok THEN a ELSE
                 LET ks0 == i = 1  ke0 == i = n
                     ks == IF FixRev /\ f.st = -1 THEN ke0 ELSE ks0
                     ke == IF FixRev /\ f.st = -1 THEN ks0 ELSE ke0
                     t == PTrimFragment(a.ors[ord[i]], f, ks, ke, FALSE)
                 IN IF ~t.ok THEN [a EXCEPT !.ok = FALSE]
                    ELSE [a EXCEPT !.ors[ord[i]] = t.o, !.subs = Append(@, t.sub)],
              [ors |-> acc.ors, subs |-> <<>>, ok |-> TRUE], [i \in 1..n |-> i])
      subs == step.subs
      srt == StableSortIds([i \in 1..Len(subs) |-> i], LAMBDA i : subs[i].s * 100000 + subs[i].e)
      abut == Cardinality({i \in 1..(Len(srt) - 1) : subs[srt[i]].e + 1 = subs[srt[i+1]].s \/ subs[srt[i+1]].e + 1 = subs[srt[i]].s})
      ovl == Cardinality({i \in 1..(Len(srt) - 1) : subs[srt[i]].e >= subs[srt[i+1]].s /\ subs[srt[i]].s <= subs[srt[i+1]].e})
      tot == SumLen(subs)
  IN IF ~step.ok \/ tot # RowLen(f) \/ ovl # 0 \/ abut # Len(subs) - 1
     THEN [acc EXCEPT !.ok = FALSE]
     ELSE [acc EXCEPT !.ors = step.ors, !.cuts = @ + Len(subs) - 1]
CutPhase(st, input, FixRev) ==
  FoldLeft(LAMBDA a, kk : CutKey(a, kk, input, FixRev), [ors |-> st.ors, found |-> st.found, cuts |-> 0, ok |-> TRUE], st.multi)

\* ---------- phase 4: left-overs ----------
Leftover(sc, found) ==
  LET r == FoldLeft(LAMBDA a, i :
              LET row == sc.rows[i] IN
              IF ~IsFrag(row) \/ Key(row) \in DOMAIN found THEN a
              ELSE LET g == IF a.last # 0 /\ a.last # i - 1
                             THEN (IF ~IsFrag(sc.rows[i-1]) THEN <<sc.rows[i-1]>> ELSE <<JoinGapRow>>) ELSE <<>>
                   IN [rows |-> a.rows \o g \o <<row>>, last |-> i],
           [rows |-> <<>>, last |-> 0], [i \in 1..Len(sc.rows) |-> i])
  IN r.rows
\* ---------- phase 5: fuse ----------
Fuse(ors, input, found, FixGap) ==
  LET items == [i \in 1..Len(ors) |-> [name |-> ors[i].name, rows |-> IF ors[i].bait.st = -1 THEN RevRows(ors[i].rows) ELSE ors[i].rows, isor |-> TRUE]]
            \o SelectSeq([i \in 1..Len(input) |-> [name |-> <<"U", input[i].name>>, rows |-> Leftover(input[i], found), isor |-> FALSE]], LAMBDA x : x.rows # <<>>)
  IN FoldLeft(LAMBDA acc, it :
        IF it.rows = <<>> THEN acc
        ELSE LET pos == {j \in 1..Len(acc) : acc[j].name = it.name} IN
             IF pos = {} THEN Append(acc, [name |-> it.name, rows |-> it.rows])
             ELSE LET j == Min(pos) IN
                  [acc EXCEPT ![j].rows = @ \o (IF it.isor \/ FixGap THEN <<JoinGapRow>> ELSE <<>>) \o it.rows],
        <<>>, items)

Pipeline(input, map, E, FixRev, FixGap) ==
  LET f == FindPhase(input, map, E)
      r == Resolve(f, E)
      c == CutPhase(r, input, FixRev)
  IN [find |-> f.ors, resolve |-> r.ors, ok |-> c.ok, cut |-> IF c.ok THEN c.ors ELSE <<>>, cuts |-> IF c.ok THEN c.cuts ELSE 0,
      fused |-> IF c.ok THEN Fuse(c.ors, input, f.found, FixGap) ELSE <<>>]


====
