---- MODULE Intervals ----
(***************************************************************************************************)
(* C19.  Closed integer intervals on named contigs, the four predicates the overlap QC rests on,   *)
(* and the all-against-all scan.                                                                   *)
(*                                                                                                 *)
(* A fragment is [name, s, e, st] with s <= e.  Definitions are written from the statement:        *)
(*   Shares(x, y)   same contig and at least one common base                                        *)
(*   OvLen(x, y)    size of the intersection (0 = none)                                             *)
(*   Gap(x, y)      number of bases strictly between two same-named disjoint intervals (-1 = n/a)   *)
(* The scan is modelled as the code performs it (PlusCal: i < j double loop over the fragments of  *)
(* all scaffolds in file order) and checked against the set definition.                            *)
(***************************************************************************************************)
EXTENDS Naturals, Integers, Sequences, FiniteSets, TLC

MaxI(a, b) == IF a > b THEN a ELSE b
MinI(a, b) == IF a < b THEN a ELSE b
Shares(x, y) == x.name = y.name /\ x.e >= y.s /\ x.s <= y.e
OvLen(x, y) == IF Shares(x, y) THEN MinI(x.e, y.e) - MaxI(x.s, y.s) + 1 ELSE 0
Disjoint(x, y) == x.name = y.name /\ ~Shares(x, y)
Gap(x, y) == IF Disjoint(x, y) THEN MaxI(x.s, y.s) - MinI(x.e, y.e) - 1 ELSE -1
Abut(x, y) == Gap(x, y) = 0

\* the set the QC has to report: unordered pairs of positions in the flattened fragment list
OverlapPairs(fr) == {p \in (1..Len(fr)) \X (1..Len(fr)) : p[1] < p[2] /\ Shares(fr[p[1]], fr[p[2]])}

CONSTANTS N, Names, MaxFrags
Ivs == {iv \in (1..N) \X (1..N) : iv[1] <= iv[2]}
Frags == {[name |-> nm, s |-> iv[1], e |-> iv[2], st |-> sg] : nm \in Names, iv \in Ivs, sg \in {1, -1}}
\* design-level laws of the definitions themselves (checked as ASSUME-free invariants in MC_Intervals)
LawSymmetric == \A x, y \in Frags : Shares(x, y) = Shares(y, x) /\ OvLen(x, y) = OvLen(y, x) /\ Gap(x, y) = Gap(y, x)
LawTrichotomy == \A x, y \in Frags : x.name = y.name =>
                    (IF Shares(x, y) THEN 1 ELSE 0) + (IF Abut(x, y) THEN 1 ELSE 0) + (IF Gap(x, y) > 0 THEN 1 ELSE 0) = 1
LawLen == \A x, y \in Frags : Shares(x, y) => OvLen(x, y) = Cardinality((x.s..x.e) \cap (y.s..y.e))

\* assemblies for the scan: a list of fragments (strand fixed to +, the scan ignores it) cut into <= 2 scaffolds
PlusFrags == {f \in Frags : f.st = 1}
FragLists == UNION {[1..n -> PlusFrags] : n \in 1..MaxFrags}

(* --fair algorithm scan
variables frs \in FragLists, cut \in 0..MaxFrags, i = 1, j = 2, found = <<>>;
begin
outer: while i <= Len(frs) do
         j := i + 1;
inner:   while j <= Len(frs) do
           if Shares(frs[i], frs[j]) then found := Append(found, <<i, j>>); end if;
           j := j + 1;
         end while;
         i := i + 1;
       end while;
end algorithm; *)
\* BEGIN TRANSLATION
VARIABLES pc, frs, cut, i, j, found

vars == << pc, frs, cut, i, j, found >>

Init == (* Global variables *)
        /\ frs \in FragLists
        /\ cut \in 0..MaxFrags
        /\ i = 1
        /\ j = 2
        /\ found = <<>>
        /\ pc = "outer"

outer == /\ pc = "outer"
         /\ IF i <= Len(frs)
               THEN /\ j' = i + 1
                    /\ pc' = "inner"
               ELSE /\ pc' = "Done"
                    /\ j' = j
         /\ UNCHANGED << frs, cut, i, found >>

inner == /\ pc = "inner"
         /\ IF j <= Len(frs)
               THEN /\ IF Shares(frs[i], frs[j])
                          THEN /\ found' = Append(found, <<i, j>>)
                          ELSE /\ TRUE
                               /\ found' = found
                    /\ j' = j + 1
                    /\ pc' = "inner"
                    /\ i' = i
               ELSE /\ i' = i + 1
                    /\ pc' = "outer"
                    /\ UNCHANGED << j, found >>
         /\ UNCHANGED << frs, cut >>

(* Allow infinite stuttering to prevent deadlock on termination. *)
Terminating == pc = "Done" /\ UNCHANGED vars

Next == outer \/ inner
           \/ Terminating

Spec == /\ Init /\ [][Next]_vars
        /\ WF_vars(Next)

Termination == <>(pc = "Done")

\* END TRANSLATION
ScanCorrect == pc = "Done" => /\ {found[k] : k \in 1..Len(found)} = OverlapPairs(frs)
                              /\ Len(found) = Cardinality(OverlapPairs(frs))
ValidCut == cut <= Len(frs) /\ (cut = 0 \/ cut < Len(frs))   \* cut = 0: one scaffold; else scaffold 1 = first `cut` fragments
\* stretching every base to k bases keeps every relation (and multiplies lengths): why the conformance harness may run the same scenarios on
\* coarser grids, where coordinates reach the sizes of real assemblies
Stretch(x, k) == [x EXCEPT !.s = (x.s - 1) * k + 1, !.e = x.e * k]
LawStretch == \A x, y \in Frags : \A k \in {2, 7, 1000} :
                 /\ Shares(Stretch(x, k), Stretch(y, k)) = Shares(x, y)
                 /\ OvLen(Stretch(x, k), Stretch(y, k)) = k * OvLen(x, y)
                 /\ (x.name = y.name /\ ~Shares(x, y)) => Gap(Stretch(x, k), Stretch(y, k)) = k * Gap(x, y)
Laws == LawSymmetric /\ LawTrichotomy /\ LawLen /\ LawStretch
====
