---- MODULE LookupScen ----
(* Scenario export for C12: the initial states of the bounded Lookup model (every scaffold x every  *)
(* query) are printed as JSON, one per line, so that the cases executed against the real            *)
(* find_overlaps are exactly the model's initial states.  Used with  CONSTRAINT Emit, -workers 1.   *)
EXTENDS Lookup, Json
Emit == PrintT(ToJson([rows |-> rows, a |-> qa, b |-> qb]))
ScenInit == Init
ScenNext == FALSE /\ UNCHANGED vars
====
