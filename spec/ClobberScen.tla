---- MODULE ClobberScen ----
(* Scenario export for C16: the initial states of Clobber.tla (subset of pre-existing outputs x clobber flag). *)
EXTENDS Clobber, Json
Emit == (k = 1 /\ exit = -1) => PrintT(ToJson([pre |-> pre, clobber |-> IF clobber THEN 1 ELSE 0]))
====
