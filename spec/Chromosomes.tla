---- MODULE Chromosomes ----
(***************************************************************************************************)
(* Scenario model for C10 (names): painted maps with many chromosomes.  Geometry is trivial here   *)
(* (t = 1 bp per texel, every piece is a whole input scaffold), so that the naming combinatorics   *)
(* can be afforded: 1..MaxChr chromosomes of equal and different sizes, each with 0..3 unloc       *)
(* pieces and 0..1 haplotig pieces in any order inside its Pretext scaffold, sex / B chromosome    *)
(* name tags, alternative autosome prefixes, unplaced scaffolds, and - Haps = 2 - the two-haplotype *)
(* pattern the statement describes: a chromosome of the first haplotype followed by its 0..2       *)
(* homologues of the other one (Singleton tag where there is none).                                *)
(*                                                                                                 *)
(* A genome plan is drawn with RandomElement (seeded by TLC's -seed) into the state variable       *)
(* `plan`; everything else (input assembly, Pretext map, expected roles) is a deterministic        *)
(* function of it.  The exported scenario carries, per Pretext scaffold, the role of every piece   *)
(* (main / unloc / haplotig) and the chromosome it belongs to: the C10 predicates use only that.   *)
(***************************************************************************************************)
EXTENDS Rows, TLC, Json
CONSTANTS NScen, MaxChr, Haps, Prefix, FirstHap

R(S) == RandomElement(S)
MainLens == {30, 40, 40, 50, 60, 70}
UnlLens == {5, 8, 8, 12}
HtLens == {6, 9, 9, 14, 45}
NameTags == {"X", "W", "B1", "Z", "I", "I_II", "2RL", "U"}
Perm5(x) == R({<<1, 2, 3, 4, 5>>, <<5, 4, 3, 2, 1>>, <<2, 1, 4, 3, 5>>, <<3, 5, 1, 2, 4>>, <<4, 1, 5, 3, 2>>, <<2, 3, 4, 5, 1>>, <<5, 1, 2, 3, 4>>})
\* one chromosome of one haplotype (dummy parameter: see PretextView.tla)
RandChr(x) == [L |-> R(MainLens), nunl |-> R({0, 0, 1, 2, 3}), unl |-> <<R(UnlLens), R(UnlLens), R(UnlLens)>>, nht |-> R({0, 0, 1}), ht |-> R(HtLens),
               perm |-> Perm5(x), rev |-> <<R({1, -1}), R({1, -1}), R({1, -1}), R({1, -1}), R({1, -1})>>,
               nm |-> IF Haps = 1 THEN R({"", "", "", "", "X", "W", "B1", "Z", "I", "I_II", "2RL", "U"}) ELSE ""]
\* gnm: in two-haplotype maps a sex / B chromosome tag is carried by the chromosome of the first haplotype AND its (single) homologue
RandGroup(x) == [first |-> RandChr(x), nhom |-> IF Haps = 1 THEN 0 ELSE R({1, 1, 1, 2, 0}), homs |-> <<RandChr(x), RandChr(x)>>,
                 gnm |-> IF Haps = 2 THEN R({"", "", "", "", "", "X", "W", "Z"}) ELSE ""]
RandPlan(x) == [chrs |-> [c \in 1..R(1..MaxChr) |-> RandGroup(c)], nunplaced |-> R({0, 1, 2, 3}), unpl |-> <<R({10, 20}), R({10, 20}), R({10, 20})>>,
                unplmapped |-> <<R(BOOLEAN), R(BOOLEAN), R(BOOLEAN)>>]

VARIABLE plan
Init == plan \in {RandPlan(x) : x \in 1..NScen}
Next == FALSE /\ UNCHANGED plan

\* ------------------------------------------------------------------ deterministic rendering of a plan
\* FirstHap = "HAP2": the haplotype that comes first in the map (and decides the ranking) is the one whose name sorts later
HapName(h) == IF Haps = 1 THEN "" ELSE IF (h = 1) = (FirstHap = "HAP1") THEN "HAP1" ELSE "HAP2"
UnitName(h, sid) == (IF Haps = 1 THEN "" ELSE HapName(h) \o "_") \o "SCAFFOLD_" \o ToString(sid)
\* the units of one chromosome in plan order: main, unlocs, haplotigs; each [role, len]
ChrUnits(ch) == <<[role |-> "main", len |-> ch.L]>> \o [q \in 1..ch.nunl |-> [role |-> "unloc", len |-> ch.unl[q]]]
                \o [q \in 1..ch.nht |-> [role |-> "haplotig", len |-> ch.ht]]
\* order the k units by the positions the permutation gives them
Shuffled(perm, k) == LET pos(u) == CHOOSE p \in 1..5 : perm[p] = u
                     IN SortSeq([u \in 1..k |-> u], LAMBDA a, b : pos(a) < pos(b))
\* name tags: a tag already used by an earlier chromosome is dropped
TagDraw(c) == IF Haps = 1 THEN plan.chrs[c].first.nm ELSE plan.chrs[c].gnm
NameTagOf(c) == LET t == TagDraw(c) IN IF t = "" \/ \E d \in 1..(c - 1) : TagDraw(d) = t THEN "" ELSE t

\* flatten: acc = [sid, input, groups]; a group = [chr, hap, painted, nm, singleton, pieces |-> <<[src, len, st, role, tags]>>]
AddChr(acc, c, h, ch, nm, singleton) ==
  LET us == ChrUnits(ch)  k == Len(us)
      names == [u \in 1..k |-> UnitName(h, acc.sid + u)]
      order == Shuffled(ch.perm, k)
      tagsOf(u) == (IF us[u].role = "unloc" THEN <<"Unloc">> ELSE IF us[u].role = "haplotig" THEN <<"Haplotig">> ELSE <<>>)
                   \o (IF us[u].role = "main" /\ Haps = 2 THEN <<HapName(h)>> ELSE <<>>)
                   \o (IF us[u].role = "main" /\ nm # "" THEN <<nm>> ELSE <<>>)
                   \o (IF us[u].role = "main" /\ singleton THEN <<"Singleton">> ELSE <<>>)
      pieces == [p \in 1..k |-> LET u == order[p] IN [src |-> names[u], a |-> 1, b |-> us[u].len, st |-> ch.rev[u], role |-> us[u].role, tags |-> tagsOf(u)]]
  IN [sid |-> acc.sid + k,
      input |-> acc.input \o [u \in 1..k |-> [name |-> names[u], rows |-> <<Frag(names[u], 1, us[u].len, 1)>>]],
      groups |-> Append(acc.groups, [chr |-> c, hap |-> h, painted |-> 1, nm |-> nm, pieces |-> pieces])]
AddGroup(acc, c) ==
  LET g == plan.chrs[c]
      nm == NameTagOf(c)
      nh == IF nm # "" /\ g.nhom > 1 THEN 1 ELSE g.nhom        \* a name-tagged chromosome has at most one homologue (names are unique per assembly)
      a1 == AddChr(acc, c, 1, g.first, nm, Haps = 2 /\ nh = 0)
      a2 == IF nh >= 1 THEN AddChr(a1, c, 2, g.homs[1], nm, FALSE) ELSE a1
      a3 == IF nh >= 2 THEN AddChr(a2, c, 2, g.homs[2], "", FALSE) ELSE a2
  IN a3
AddUnplaced(acc, q) ==
  LET h == IF Haps = 2 /\ q % 2 = 0 THEN 2 ELSE 1   nm == UnitName(h, acc.sid + 1) IN
  [sid |-> acc.sid + 1,
   input |-> Append(acc.input, [name |-> nm, rows |-> <<Frag(nm, 1, plan.unpl[q], 1)>>]),
   groups |-> IF plan.unplmapped[q]
              THEN Append(acc.groups, [chr |-> 0, hap |-> h, painted |-> 0, nm |-> "",
                                       pieces |-> <<[src |-> nm, a |-> 1, b |-> plan.unpl[q], st |-> 1, role |-> "unplaced", tags |-> <<>>]>>])
              ELSE acc.groups]
Built == LET a == FoldLeft(AddGroup, [sid |-> 0, input |-> <<>>, groups |-> <<>>], [c \in 1..Len(plan.chrs) |-> c])
         IN FoldLeft(AddUnplaced, a, [q \in 1..plan.nunplaced |-> q])
Scenario == [tn |-> 1, td |-> 1, naming |-> "fasta", valid |-> 1, prefix |-> Prefix, nhaps |-> Haps, input |-> Built.input, map |-> Built.groups,
             haps |-> [s \in 1..Len(Built.input) |-> ""], nchr |-> Len(plan.chrs)]
Emit == PrintT(ToJson(Scenario))
====
