---- MODULE IntervalsScen ----
(* Scenario export for C19: (a) every ordered pair of fragments of the bounded universe, (b) every  *)
(* assembly (fragment list + scaffold cut) of the scan model.  Selected by the constant Which.      *)
EXTENDS Intervals, Json
CONSTANT Which
VARIABLES px, py
PairInit == px \in Frags /\ py \in Frags /\ frs = <<>> /\ cut = 0 /\ i = 0 /\ j = 0 /\ found = <<>> /\ pc = "x"
AsmInit == Init /\ ValidCut /\ px = 0 /\ py = 0
ScenInit == IF Which = "pairs" THEN PairInit ELSE AsmInit
ScenNext == FALSE /\ UNCHANGED <<vars, px, py>>
Emit == IF Which = "pairs" THEN PrintT(ToJson([x |-> px, y |-> py])) ELSE PrintT(ToJson([frs |-> frs, cut |-> cut]))
====
