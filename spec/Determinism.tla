---- MODULE Determinism ----
(***************************************************************************************************)
(* C17.  Runs of the command line tools as a function of the input id, under environment actions.  *)
(*                                                                                                 *)
(* The model is deliberately thin: it organises the exploration (which histories of environment    *)
(* changes and runs are executed for real); the substance is in executing them.  A run record is   *)
(* [inp, fmt, seed, cwd, cache, buf]; `memo` remembers the output of the first run of every        *)
(* (inp, fmt) and of every inp (assemblies only); the property is that every later run agrees.     *)
(* In the model the output is, by construction, a function of the input - what could break this in *)
(* the code (hash-seed dependent iteration, state left over from earlier runs in the process, a    *)
(* cache that re-reads differently from what was computed, buffer-size effects) is exactly what    *)
(* the environment fields vary.                                                                    *)
(*  Mode "proc":   every run is a fresh process; a history is one cold run followed by MaxRuns - 1 *)
(*                 runs on the same input under any environment (cache kept or cleared).           *)
(*  Mode "inproc": MaxRuns consecutive invocations inside one process, on any inputs.              *)
(*  Mode "inslot": MaxRuns consecutive invocations inside one process, the FASTA input of every    *)
(*                 run written to ONE path (replaced when the input changes, caches left alone):   *)
(*                 what a process remembers about a path must not outlive the file's content.     *)
(***************************************************************************************************)
EXTENDS Naturals, Sequences, FiniteSets, TLC, Json
CONSTANTS Inputs, Formats, Seeds, Dirs, Bufs, Seed0, Dir0, Buf0, MaxRuns, Mode
VARIABLES hist
SetOf(sq) == {sq[q] : q \in 1..Len(sq)}
Rec(i, f, s, d, c, b) == [inp |-> i, fmt |-> f, seed |-> s, cwd |-> d, cache |-> c, buf |-> b]
Init == hist = <<>>
RunProc == /\ Mode = "proc" /\ Len(hist) < MaxRuns
           /\ \E i \in Inputs, f \in Formats, s \in Seeds, d \in Dirs, c \in {"keep", "clear"} :
                 /\ Len(hist) = 0 => c = "clear" /\ s = Seed0 /\ d = Dir0       \* the first run of a history is the canonical cold run
                 /\ Len(hist) > 0 => i = hist[1].inp
                 /\ hist' = Append(hist, Rec(i, f, s, d, c, Buf0))
RunInProc == /\ Mode = "inproc" /\ Len(hist) < MaxRuns
             /\ \E i \in Inputs, f \in Formats, b \in Bufs :
                   hist' = Append(hist, Rec(i, f, Seed0, Dir0, "keep", b))
RunInSlot == /\ Mode = "inslot" /\ Len(hist) < MaxRuns
             /\ \E i \in Inputs : hist' = Append(hist, Rec(i, "fa", Seed0, Dir0, "keep", Buf0))
Next == RunProc \/ RunInProc \/ RunInSlot
Spec == Init /\ [][Next]_hist
\* the output of a run in the model: a function of the input (and, for whole files, of the input format)
OutFiles(r) == <<r.inp, r.fmt>>
OutAsm(r) == r.inp
Deterministic == \A a, b \in 1..Len(hist) : (hist[a].inp = hist[b].inp /\ hist[a].fmt = hist[b].fmt) => OutFiles(hist[a]) = OutFiles(hist[b])
FormatIndependent == \A a, b \in 1..Len(hist) : hist[a].inp = hist[b].inp => OutAsm(hist[a]) = OutAsm(hist[b])
Emit == Len(hist) = MaxRuns => PrintT(ToJson(hist))
====
