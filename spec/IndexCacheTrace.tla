---- MODULE IndexCacheTrace ----
(***************************************************************************************************)
(* Trace validation for C15.  A trace is the list of file operations, environment events and       *)
(* process ends recorded by harness/sched.py while a schedule was replayed into the real           *)
(* FastaIndex.auto_load:  [tid, cls, tokens, hang, truth |-> <<[idx, asm, fai, agp]>>_ver,         *)
(*   events |-> <<[p, op, f, ex, mt, k, fver, kind, idx, asm, fai, agp, solo, clock]>>]            *)
(*                                                                                                 *)
(* JudgeSpec  - P-clauses, evaluated on the recorded real outcomes only:                           *)
(*    C15.cache_safe    every completed auto_load holds exactly the index and the assembly of the  *)
(*                      FASTA content current at that moment (digests of the real objects)         *)
(*    C15.rebuild_both  after an auto_load that ran alone, both cache files on disk are the ones   *)
(*                      of the current FASTA content                                               *)
(* TraceSpec  - M-clause: the recorded events are a behaviour of IndexCache.tla (each event is     *)
(*    matched to the model action of the process's pc, logged stat results are compared with the   *)
(*    model's file system, the logged outcome with the model's result).                            *)
(***************************************************************************************************)
EXTENDS IndexCache, Json, IOUtils, TLCExt, SequencesExt
Traces == JsonDeserialize(IOEnv.TRACE_FILE)
ASSUME TLCSet(1, 0) /\ TLCSet(2, 0) /\ TLCSet(3, 0)
VARIABLES tid, l
tvars == <<vars, tid, l>>
Say(T, kind, clause, detail) == PrintT(<<kind, T.tid, clause, detail>>)

\* ------------------------------------------------------------------ P-clauses
RealOK(T, e) == e.idx = T.truth[e.fver].idx /\ e.asm = T.truth[e.fver].asm
\* did the process load the cache (it opened the public .fai for reading during this run) or index the FASTA ?
RunStart(T, n) == LET bs == {m \in 1..n : T.events[m].op = "begin" /\ T.events[m].p = T.events[n].p} IN Max(bs)
Path(T, n) == IF \E m \in RunStart(T, n)..n : T.events[m].p = T.events[n].p /\ T.events[m].op = "open_r" /\ T.events[m].f = "fai"
              THEN "loaded" ELSE "indexed"
What(T, e) == IF e.idx # T.truth[e.fver].idx /\ e.asm # T.truth[e.fver].asm THEN "index+assembly"
              ELSE IF e.idx # T.truth[e.fver].idx THEN "index" ELSE "assembly"
JudgeEnd(T, n) ==
  LET e == T.events[n] IN
  (e.op = "end" /\ e.kind = "done") =>
     /\ TLCSet(2, TLCGet(2) + 1)
     /\ (RealOK(T, e) \/ Say(T, "V", "C15.cache_safe", T.cls \o "/" \o Path(T, n) \o "/wrong-" \o What(T, e)))
     /\ ((e.solo = 1 => e.fai = T.truth[e.fver].fai /\ e.agp = T.truth[e.fver].agp)
           \/ Say(T, "V", "C15.rebuild_both", T.cls \o "/" \o Path(T, n)))
Judge(T) == /\ TLCSet(1, TLCGet(1) + 1)
            /\ (T.hang = 0 \/ Say(T, "V", "C15.cache_safe", T.cls \o "/hang"))
            /\ \A n \in 1..Len(T.events) : JudgeEnd(T, n)
JInit == l = 0 /\ tid = 0 /\ Init /\ flushy = TRUE
JNext == l < Len(Traces) /\ l' = l + 1 /\ Judge(Traces[l + 1]) = TRUE /\ UNCHANGED <<vars, tid>>
JudgeSpec == JInit /\ [][JNext]_tvars

\* ------------------------------------------------------------------ M-clause: acceptance by the model
E == Traces[tid].events[l]
WFileClass(w) == IF Protocol = "inplace" THEN w ELSE "tmp" \o w
OpClass(label) ==
  CASE label = "ctor" -> <<"stat", "fa">> [] label = "statFasta" -> <<"stat", "fa">>
    [] label \in {"exFai", "stFai", "wExFai"} -> <<"stat", "fai">> [] label \in {"exAgp", "stAgp", "wExAgp"} -> <<"stat", "agp">>
    [] label = "rdFai" -> <<"open_r", "fai">> [] label = "rdAgp" -> <<"open_r", "agp">> [] label = "index" -> <<"open_r", "fa">>
    [] label = "oFai" -> <<"open_w", WFileClass("fai")>> [] label = "wFai" -> <<"write", WFileClass("fai")>>
    [] label = "cFai" -> <<"close", WFileClass("fai")>> [] label = "rFai" -> <<"replace", "fai">>
    [] label = "oAgp" -> <<"open_w", WFileClass("agp")>> [] label = "wAgp" -> <<"write", WFileClass("agp")>>
    [] label = "cAgp" -> <<"close", WFileClass("agp")>> [] label = "rAgp" -> <<"replace", "agp">>
    [] OTHER -> <<"none", "">>
\* what the real stat saw must be what the model's file system holds
StatMatches(e, p) ==
  e.op = "stat" =>
    IF e.f = "fa" THEN e.ex = 1 /\ e.mt = fasta.mt
    ELSE IF pc[p] \in {"wExFai", "wExAgp"} /\ Protocol = "inplace" THEN (e.ex = 1) = fs[Pub(e.f)].ex
    ELSE (e.ex = 1) = fs[Pub(e.f)].ex /\ (e.ex = 1 => e.mt = fs[Pub(e.f)].mt)
FileOp(e) == /\ e.op \in {"stat", "open_r", "open_w", "write", "close", "replace"}
             /\ OpClass(pc[e.p]) = <<e.op, e.f>>
             /\ StatMatches(e, e.p)
             /\ Step(e.p) /\ hist' = hist
EndEv(e) == /\ e.op = "end"
            /\ \/ e.kind = "done" /\ pc[e.p] = "fin" /\ Finish(e.p) /\ hist' = hist
                  /\ (ResultOK(res'[e.p], fasta.ver) <=> RealOK(Traces[tid], e))
               \/ e.kind # "done" /\ e.kind # "crashed" /\ pc[e.p] = "error" /\ UNCHANGED vars
               \/ e.kind # "done" /\ e.kind # "crashed" /\ Fail(e.p) /\ hist' = hist
               \/ e.kind = "crashed" /\ pc[e.p] = "crashed" /\ UNCHANGED vars
EnvEv(e) == \/ e.op = "begin" /\ Start(e.p)
            \/ e.op = "crash" /\ Crash(e.p)
            \/ e.op = "tick" /\ Tick
            \/ e.op = "rewrite" /\ RewriteFasta
            \/ e.op = "delete" /\ Delete(e.f)
TInit == tid \in 1..Len(Traces) /\ l = 1 /\ Init /\ flushy = (Traces[tid].flushy = 1)
Consume == l <= Len(Traces[tid].events) /\ l' = l + 1 /\ UNCHANGED tid /\ (FileOp(E) \/ EndEv(E) \/ EnvEv(E))
Accept == l = Len(Traces[tid].events) + 1 /\ l' = l + 1 /\ UNCHANGED <<vars, tid>>
          /\ PrintT(<<"M", Traces[tid].tid, "accepted", "">>)
TraceSpec == TInit /\ [][Consume \/ Accept]_tvars
Post == PrintT(<<"JUDGED", Len(Traces)>>) /\ PrintT(<<"N", "completed_loads_judged", TLCGet(2)>>)
====
