---- MODULE OverlapResultTrace ----
(***************************************************************************************************)
(* Trace validation for C18.  One trace = the complete graph of states that the REAL OverlapResult *)
(* object reaches from one real lookup under the operation alphabet:                               *)
(*   [tid, src, a, b, hang, nodes |-> <<[start, end, rows, d]>>, edges |-> <<<<from, op#, to>>>>]  *)
(* node 1 is the object returned by find_overlaps; to = 0 means the real call raised.              *)
(* P-clauses (C18) are evaluated on every recorded node; M-clauses compare every recorded edge     *)
(* with the model's operation.                                                                     *)
(***************************************************************************************************)
EXTENDS OverlapResult, Json, IOUtils, TLCExt
Data == JsonDeserialize(IOEnv.TRACE_FILE)
Traces == Data.traces
OpList == Data.hdr.ops
ASSUME TLCSet(1, 0) /\ TLCSet(2, 0) /\ TLCSet(3, 0)
VARIABLE i
St(nd) == [start |-> nd.start, end |-> nd.end, rows |-> nd.rows]
Say(T, kind, clause, detail) == PrintT(<<kind, T.tid, clause, detail>>)
OpName(op) == op.n \o (IF op.n = "TL" THEN ToString(op.e) ELSE IF op.n = "TF" THEN "/" \o op.side ELSE "")

JudgeNode(T, k) ==
  LET nd == T.nodes[k]  s == St(nd)  where == IF k = 1 THEN "lookup" ELSE "after-ops" IN
  /\ (SpanIsRows(s) \/ Say(T, "V", "C18.span_is_rows", where))
  /\ (ContiguousRun(s, T.src) \/ Say(T, "V", "C18.contiguous_run", where))
  /\ (NoTerminalGap(s) \/ Say(T, "V", "C18.no_terminal_gap", where))
  /\ ((nd.d.err = 0 /\ Derived(s, T.a, T.b, nd.d)) \/ Say(T, "V", "C18.derived_figures", where))

JudgeEdge(T, ed) ==
  LET from == St(T.nodes[ed[1]])  op == OpList[ed[2]]  m == Apply(from, T.a, T.b, op) IN
  /\ TLCSet(2, TLCGet(2) + 1)
  /\ (IF ed[3] = 0 THEN ~m.ok ELSE m.ok /\ m.o = St(T.nodes[ed[3]])) \/ Say(T, "M", OpName(op), IF ed[3] = 0 THEN "rejected" ELSE "state")

Judge(T) ==
  /\ TLCSet(1, TLCGet(1) + 1)
  /\ IF T.hang = 1 THEN Say(T, "V", "C18.span_is_rows", "hang")
     ELSE /\ \A k \in 1..Len(T.nodes) : JudgeNode(T, k)
          /\ \A e \in 1..Len(T.edges) : JudgeEdge(T, T.edges[e])
          /\ LET l == Lookup(T.src, T.a, T.b) IN (~l.none /\ l.o = St(T.nodes[1])) \/ Say(T, "M", "lookup", "state")
          /\ TLCSet(3, TLCGet(3) + Len(T.nodes))

\* the model's own variables are not used by the judge; they are pinned to constants
TInit == i = 0 /\ src = <<>> /\ ba = 0 /\ bb = 0 /\ o = 0 /\ hist = <<>>
\* Judge(..) = TRUE: evaluated as an expression, so that TLC does not split its disjunctions into alternative successors
TNext == i < Len(Traces) /\ i' = i + 1 /\ Judge(Traces[i + 1]) = TRUE /\ UNCHANGED vars
TraceSpec == TInit /\ [][TNext]_<<i, vars>>
Post == PrintT(<<"JUDGED", TLCGet(1)>>) /\ PrintT(<<"N", "edges", TLCGet(2)>>) /\ PrintT(<<"N", "nodes", TLCGet(3)>>)
====
