SPECIFICATION Spec
CONSTANTS MaxRows = 4 Lens = {1, 2, 3} Fixed = TRUE
INVARIANT Correct
PROPERTY Terminates
