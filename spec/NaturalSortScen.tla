---- MODULE NaturalSortScen ----
(***************************************************************************************************)
(* Scenario families for C20 (and the design-level check of the model key against the laws).       *)
(* A scenario is [fam, names, ranks, claims]; a claim <<i, j>> says: names[i] comes before names[j] *)
(* in every output, whatever the input order.  The claims ARE the laws of the statement:           *)
(*   F3 decimal runs compare by value       F4 numerals I..IV compare by value                     *)
(*   F5 unloc directly after its chromosome and before the next one (autosome and nematode series) *)
(*   F6 rank takes precedence over name     F1/F2 totality and consistency only (no claims)        *)
(***************************************************************************************************)
EXTENDS NaturalSort, Json
CONSTANTS Fam, MaxLen

Alphabet == {"S", "u", "I", "V", "X", "_", "0", "1", "2", "9"}
NamesUpTo(n) == UNION {[1..k -> Alphabet] : k \in 1..n}
Pool2 == NamesUpTo(2) \cup UNION {[1..k -> {"I", "V", "1", "_"}] : k \in 3..3}
UNLOC == <<"_", "u", "n", "l", "o", "c", "_">>
RECURSIVE Dec(_)
Dec(n) == IF n < 10 THEN <<Chars[Code("0") + n]>> ELSE Append(Dec(n \div 10), Chars[Code("0") + (n % 10)])
DecForms(n) == {Dec(n), <<"0">> \o Dec(n), <<"0", "0">> \o Dec(n)}
Values == {0, 1, 2, 9, 10, 11, 99, 100, 1000000}
\* numbers beyond 64 bits and zero-padding beyond 18 characters (serial numbers, time stamps): still compared by value
Rep(c, n) == [k \in 1..n |-> c]
BigPairs == {<<Rep("9", 18), <<"1">> \o Rep("0", 18)>>, <<<<"1">> \o Rep("0", 18), <<"1">> \o Rep("0", 19)>>, <<Rep("9", 19), <<"1">> \o Rep("0", 19)>>,
             <<Rep("0", 22) \o <<"4", "2">>, <<"4", "3">>>>, <<<<"7">> \o Rep("1", 20), <<"7">> \o Rep("1", 19) \o <<"2">>>>}
DecPrefixes == {<<>>, <<"S", "_">>, <<"S", "U", "P", "E", "R", "_">>, <<"c">>, <<"I">>, <<"X">>, <<"c", "h", "r", "-">>, <<"a", ".", "b">>}
DecSuffixes == {<<>>, <<"_">>, <<"A">>, <<"_", "u", "n", "l", "o", "c", "_", "1">>, <<"I">>, <<".", "x">>}
Numerals == <<<<"I">>, <<"I", "I">>, <<"I", "I", "I">>, <<"I", "V">>>>
NumPrefixes == {<<>>, <<"c", "h", "r">>, <<"S", "_">>, <<"c", "_">>, <<"S", "U", "P", "E", "R", "_">>}
NumSuffixes == {<<>>, <<"_">>, <<"_", "u", "n", "l", "o", "c", "_", "1">>, <<"b">>, <<"_", "2">>}
ChrPrefixes == {<<"S", "_">>, <<"S", "U", "P", "E", "R", "_">>, <<"C", "H", "R">>, <<>>}
ChrNums == {1, 2, 9, 10, 11, 20}
UnlocNums == {1, 2, 10}
NemSeries == <<<<"I">>, <<"I", "_", "u", "n", "l", "o", "c", "_", "1">>, <<"I", "I">>, <<"I", "I", "_", "u", "n", "l", "o", "c", "_", "1">>, <<"I", "I", "_", "u", "n", "l", "o", "c", "_", "2">>, <<"I", "I", "I">>, <<"I", "V">>, <<"I", "V", "_", "u", "n", "l", "o", "c", "_", "1">>, <<"V">>, <<"V", "_", "u", "n", "l", "o", "c", "_", "1">>, <<"X">>>>
RankPool == {<<"S", "_", "1">>, <<"S", "_", "2">>, <<"S", "_", "1", "0">>, <<"X">>, <<"s", "c", "a", "f", "f", "o", "l", "d", "_", "3">>, <<"H", "_", "1">>, <<"S", "_", "1", "_", "u", "n", "l", "o", "c", "_", "1">>, <<"a">>}

VARIABLES x, y, z
svars == <<x, y, z>>
AllPairs(n) == {p \in (1..n) \X (1..n) : p[1] < p[2]}
Chain(n) == [k \in 1..(n - 1) |-> <<k, k + 1>>]
Ones(n) == [k \in 1..n |-> 1]

Scenario ==
  CASE Fam = "F1" -> [fam |-> Fam, names |-> <<x>>, ranks |-> <<1>>, claims |-> <<>>]
    [] Fam = "F2" -> [fam |-> Fam, names |-> <<x, y>>, ranks |-> <<1, 1>>, claims |-> <<>>]
    [] Fam = "F3" -> [fam |-> Fam, names |-> <<x \o z[1] \o y, x \o z[2] \o y>>, ranks |-> <<1, 1>>, claims |-> <<S2(1, 2)>>]
    [] Fam = "F4" -> [fam |-> Fam, names |-> <<x \o Numerals[z[1]] \o y, x \o Numerals[z[2]] \o y>>, ranks |-> <<1, 1>>, claims |-> <<S2(1, 2)>>]
    [] Fam = "F5" -> LET c1 == x \o Dec(y[1])  c2 == x \o Dec(y[2])
                         ul == [k \in 1..Len(z) |-> c1 \o UNLOC \o Dec(z[k])]
                     IN [fam |-> Fam, names |-> <<c1>> \o ul \o <<c2>>, ranks |-> Ones(Len(z) + 2), claims |-> Chain(Len(z) + 2)]
    [] Fam = "F5n" -> [fam |-> Fam, names |-> [k \in 1..Len(NemSeries) |-> x \o NemSeries[k]], ranks |-> Ones(Len(NemSeries)), claims |-> Chain(Len(NemSeries))]
    [] Fam = "F6" -> [fam |-> Fam, names |-> <<x, y>>, ranks |-> z, claims |-> IF z[1] < z[2] THEN <<S2(1, 2)>> ELSE IF z[2] < z[1] THEN <<S2(2, 1)>> ELSE <<>>]

ScenInit ==
  CASE Fam = "F1" -> x \in NamesUpTo(MaxLen) /\ y = 0 /\ z = 0
    [] Fam = "F2" -> x \in Pool2 /\ y \in Pool2 /\ x # y /\ z = 0
    [] Fam = "F3" -> x \in DecPrefixes /\ y \in DecSuffixes
                     /\ z \in UNION {{<<d1, d2>> : d1 \in DecForms(v[1]), d2 \in DecForms(v[2])} : v \in {v \in Values \X Values : v[1] < v[2]}} \cup BigPairs
    [] Fam = "F4" -> x \in NumPrefixes /\ y \in NumSuffixes /\ z \in {v \in (1..4) \X (1..4) : v[1] < v[2]}
    [] Fam = "F5" -> x \in ChrPrefixes /\ y \in {v \in ChrNums \X ChrNums : v[1] < v[2]}
                     /\ z \in {<<>>, <<1, 2, 10>>} \cup {<<a>> : a \in UnlocNums} \cup {<<v[1], v[2]>> : v \in {w \in UnlocNums \X UnlocNums : w[1] < w[2]}}
    [] Fam = "F5n" -> x \in {<<>>, <<"c", "h", "r">>, <<"S", "U", "P", "E", "R", "_">>} /\ y = 0 /\ z = 0
    [] Fam = "F6" -> x \in RankPool /\ y \in RankPool /\ z \in (1..3) \X (1..3)
ScenNext == FALSE /\ UNCHANGED svars
Emit == PrintT(ToJson(Scenario))

\* design level: the model key satisfies every claim, and ties of the key inside a safe set are leading-zero ties only
ModelKeeps(sc) ==
  /\ \A c \in Range(sc.claims) : (IF sc.ranks[c[1]] # sc.ranks[c[2]] THEN sc.ranks[c[1]] < sc.ranks[c[2]] ELSE KeyCmp(sc.names[c[1]], sc.names[c[2]]) < 0)
  /\ SafeSet(sc.names) => \A i, j \in 1..Len(sc.names) : KeyCmp(sc.names[i], sc.names[j]) = 0 => ZeroNorm(sc.names[i]) = ZeroNorm(sc.names[j])
ModelOK == ModelKeeps(Scenario)
\* a common prefix that ends in a separator does not change the order of two names (its last text piece merges with the first text piece
\* of either name, every later piece keeps its place): why the conformance harness may hide the exported names behind prefixes holding
\* hundreds of numbers - names far longer than TLC could tokenise itself - and judge the outcome on the names as exported
Pads == {<<"1", "_">>, <<"1", "_", "1", "_">>, <<"7", ".", "s">>, <<"x", "_">>, <<"I", "_">>, <<"I", "_", "2", "_">>}
PadLemma == \A P \in Pads : \A i, j \in 1..Len(Scenario.names) : KeyCmp(P \o Scenario.names[i], P \o Scenario.names[j]) = KeyCmp(Scenario.names[i], Scenario.names[j])
====
