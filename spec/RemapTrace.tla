---- MODULE RemapTrace ----
(***************************************************************************************************)
(* Trace validation for the remapper.  Each trace is one real execution of                          *)
(* BuildAssembly.remap_to_input_assembly + assemblies_with_scaffolds_fused (or of the pretext-to-asm *)
(* CLI) on a scenario exported from PretextView.tla.  The clauses of RemapProps.tla are evaluated   *)
(* on the recorded real outputs; Props selects which properties' clauses are evaluated.             *)
(***************************************************************************************************)
EXTENDS Reports, RemapNaming, OutputFiles, Json, IOUtils, TLCExt
CONSTANT Props
Traces == JsonDeserialize(IOEnv.TRACE_FILE)
ASSUME TLCSet(1, 0) /\ TLCSet(2, 0) /\ TLCSet(3, 0) /\ TLCSet(4, 0) /\ TLCSet(5, 0) /\ TLCSet(6, 0) /\ TLCSet(7, 0) /\ TLCSet(8, 0) /\ TLCSet(9, 0) /\ TLCSet(10, 0)
VARIABLE tn
Say(T, clause, detail) == PrintT(<<"V", T.tid, clause, detail>>)
HasRev(T) == \E c \in Range(InContigs(T)) : c.st = -1
Cls(T) == T.cls \o (IF HasRev(T) THEN "/reverse-contigs" ELSE "/forward-contigs")
Count(reg, n) == TLCSet(reg, TLCGet(reg) + n)
B2I(x) == IF x THEN 1 ELSE 0

J01(T) == "C01" \in Props =>
  /\ Count(2, B2I(Ok(T)))
  /\ (Ok(T) => (SubIntervalOfOne(T) \/ Say(T, "C01.fragment_inside_one_contig", Cls(T))))
  /\ (Ok(T) => (ExactPartition(T) \/ Say(T, "C01.exact_partition", Cls(T))))
  /\ (T.status # "hang" \/ Say(T, "C01.exact_partition", "hang"))
J02(T) == ("C02" \in Props /\ T.valid = 1) =>
  /\ (Completes(T) \/ Say(T, "C02.completes", Cls(T) \o "/" \o T.status))
  /\ (Ok(T) => /\ (CoreRunCollinear(T) \/ Say(T, "C02.core_run_collinear", Cls(T)))
               /\ (PretextOrder(T) \/ Say(T, "C02.pretext_order", Cls(T)))
               /\ (DeepCutExact(T) \/ Say(T, "C02.deep_cut_exact", Cls(T)))
               /\ Count(3, Cardinality({x \in AllPieces(T) : Core(T, T.map[x[1]].pieces[x[2]]) # <<>>}))
               /\ Count(4, Cardinality({c \in DeepCuts(T) : IsDeep(T, c)})))
J07(T) == ("C07" \in Props /\ Ok(T)) =>
  /\ (DirectAdjOnlyIfInput(T) \/ Say(T, "C07.direct_adjacent_only_if_input", Cls(T)))
  /\ (NoTerminalGaps(T) \/ Say(T, "C07.no_terminal_gap", Cls(T)))
  /\ (GapProvenance(T) \/ Say(T, "C07.gap_provenance", Cls(T)))
  /\ (NonNeighboursUseJoinGap(T) \/ Say(T, "C07.non_neighbours_use_join_gap", Cls(T)))
  /\ Count(5, Len(AllJunctions(T.out)))
\* (detail of a C08 report: does some scaffold's last contig lie wholly beyond the end of what the map shows of it?  That needs a last contig no
\*  longer than floor(t) + 1 bases on a scaffold whose texel count was rounded down by exactly that much)
LastBeyond(T) == \E g \in 1..Len(T.map) : LET pc == T.map[g].pieces[1]  rows == Src(T, pc.src).rows  fr == Frags(rows) IN
                    fr # <<>> /\ IsFrag(rows[Len(rows)]) /\ SumLen(rows) - RowLen(fr[Len(fr)]) + 1 > pc.b
Cls08(T) == IF LastBeyond(T) THEN "last-contig-beyond-map-end" ELSE Cls(T)
J08(T) == ("C08" \in Props /\ IsNullMap(T) /\ NullPre(T)) =>
  /\ Count(6, 1)
  /\ (NullMapIdentity(T) \/ Say(T, "C08.null_map_identity", Cls08(T) \o "/" \o T.status))
  /\ (NullMapStatsZero(T) \/ Say(T, "C08.null_map_stats_zero", Cls08(T)))
J08p(T) == ("C08" \in Props /\ IsPaintedNullMap(T) /\ NullPre(T)) =>
  /\ Count(6, 1)
  /\ (PaintedNullMapContentEqual(T) \/ Say(T, "C08.painted_null_map_content_equal", Cls08(T) \o "/" \o T.status))
  /\ (NullMapStatsZero(T) \/ Say(T, "C08.null_map_stats_zero", Cls08(T)))
J09(T) == ("C09" \in Props /\ Ok(T)) =>
  /\ Count(3, Cardinality({x \in AllPieces(T) : Core(T, T.map[x[1]].pieces[x[2]]) # <<>> /\ Len(T.map[x[1]].pieces[x[2]].tags) > 0}))
  /\ (RoutedByTag(T) \/ Say(T, "C09.routed_by_tag", Cls(T)))
  /\ (OneAssemblyPerHaplotype(T) \/ Say(T, "C09.one_assembly_per_haplotype", Cls(T)))
  /\ (AbsentRouted(T) \/ Say(T, "C09.absent_sequence_routed", "contig-naming=" \o T.naming \o "/scaffold-names=" \o T.style))
\* the uniqueness clause alone on maps of the PretextView model (cut, moved, tagged pieces; sequence absent from the map): input names there
\* (S1, HAP1_SCAFFOLD_1, ...) are outside the generated namespaces
DupAsm(T) == CHOOSE a \in {T.out[o].asm_lc : o \in 1..Len(T.out)} :
                \E o1, o2 \in 1..Len(T.out) : o1 < o2 /\ T.out[o1].asm_lc = a /\ T.out[o2].asm_lc = a /\ T.out[o1].name = T.out[o2].name
J10u(T) == ("C10" \in Props /\ Ok(T) /\ "nhaps" \notin DOMAIN T) =>
  /\ Count(3, Len(T.out))
  /\ (UniqueNames(T) \/ Say(T, "C10.unique_names", IF "route" \in DOMAIN T THEN "written-file-of=" \o DupAsm(T) \o "/scaffold-names=" \o T.style
                                                     ELSE "pretextview-map/contig-naming=" \o T.naming \o "/scaffold-names=" \o T.style))
J10(T) == ("C10" \in Props /\ Ok(T) /\ "nhaps" \in DOMAIN T) =>
  IF ~AllPlaced(T) THEN Say(T, "C10.unique_names", "piece-missing-from-output")
  ELSE
  /\ Count(3, Cardinality(ChrGroups(T)))
  /\ (UniqueNames(T) \/ Say(T, "C10.unique_names", T.cls))
  /\ (AutosomesDense(T) \/ Say(T, "C10.autosomes_dense", T.cls))
  /\ (~AutosomesDense(T) \/ AutosomesSorted(T) \/ Say(T, "C10.autosomes_sorted_by_size", T.cls))
  /\ (~AutosomesDense(T) \/ T.nhaps = 1 \/ HomologuesShareNumber(T) \/ Say(T, "C10.homologues_share_number", T.cls))
  /\ (NameTagged(T) \/ Say(T, "C10.name_tagged", T.cls))
  /\ (UnlocNames(T) \/ Say(T, "C10.unloc_names", T.cls))
  /\ (~UnlocNames(T) \/ UnlocsSortedBySize(T) \/ Say(T, "C10.unlocs_sorted_by_size", T.cls))
  /\ (HaplotigsNamedAndSorted(T) \/ Say(T, "C10.haplotigs_named_and_sorted", T.cls))
  /\ (~AutosomesDense(T) \/ OutputOrder(T) \/ Say(T, "C10.output_order", T.cls))
  /\ ((CsvPresent(T) /\ CsvMatches(T)) \/ Say(T, "C10.chromosome_csv", T.cls))
\* M-clause "naming": assembly key, name, rank and rows of every output scaffold as the naming-layer model (RemapNaming.tla) predicts;
\* single-haplotype (plain-named) scenarios only
JNaming(T) == ("MODEL" \in Props /\ T.style = "plain" /\ T.status # "hang" /\ T.valid = 1 /\ "route" \notin DOMAIN T) =>
  LET m == PipelineN(T.input, T.map, ErrLenT(T), TRUE, TRUE, TRUE)
      pfx == IF "prefix" \in DOMAIN T THEN T.prefix ELSE "SUPER_"
      mo == {[asm |-> IF m.out[q].asm = "none" THEN "" ELSE m.out[q].asm, name |-> RenderName(m.out[q].name, m.out[q].rank, pfx), rank |-> m.out[q].rank,
              rows |-> m.out[q].rows] : q \in 1..Len(m.out)}
      ro == {[asm |-> T.out[q].asm, name |-> T.out[q].name, rank |-> T.out[q].rank, rows |-> T.out[q].rows] : q \in 1..Len(T.out)}
  IN /\ (m.ok = Ok(T) \/ PrintT(<<"M", T.tid, "naming_status", T.cls>>))
     /\ (~(m.ok /\ Ok(T)) \/ (mo = ro /\ Len(m.out) = Len(T.out)) \/ PrintT(<<"M", T.tid, "naming", T.cls>>))
\* M-clause: the code follows the implementation-shaped pipeline model (Remap.tla): same completion status, same number of cuts,
\* same scaffolds (row sequences; names and order are the naming layer's business).  Untagged, plain-named scenarios only.
Untagged(T) == \A x \in AllPieces(T) : T.map[x[1]].pieces[x[2]].tags = <<>> /\ T.map[x[1]].pieces[x[2]].src # "Nowhere"
RowBag(ss) == [r \in {ss[q].rows : q \in 1..Len(ss)} |-> Cardinality({q \in 1..Len(ss) : ss[q].rows = r})]
JModel(T) == ("MODEL" \in Props /\ Untagged(T) /\ T.style = "plain" /\ T.status # "hang") =>
  LET p == Pipeline(T.input, T.map, ErrLenT(T), TRUE, TRUE) IN
  /\ Count(2, 1)
  /\ (p.ok = Ok(T) \/ PrintT(<<"M", T.tid, "pipeline_status", Cls(T)>>))
  /\ (~(p.ok /\ Ok(T)) \/ p.cuts = T.stats.cuts \/ PrintT(<<"M", T.tid, "pipeline_cuts", Cls(T)>>))
  /\ (~(p.ok /\ Ok(T)) \/ RowBag(p.fused) = RowBag(T.out) \/ PrintT(<<"M", T.tid, "pipeline_fused_rows", Cls(T)>>))
\* M-clauses "reports": the chromosome report, the per-assembly break / join counts and the two sanity warnings say what Reports.tla derives
\* from the recorded output scaffolds (Chromosomes.tla scenarios, recorded with the reports)
JReports(T) == ("MODEL" \in Props /\ Ok(T) /\ "report" \in DOMAIN T /\ AllPlaced(T)) =>
  /\ Count(7, Len(T.report))
  /\ (ChrReportMatches(T) \/ PrintT(<<"M", T.tid, "chr_report", T.cls>>))
  /\ (SanityMatches(T) \/ PrintT(<<"M", T.tid, "sanity_warnings", T.cls>>))
  /\ Count(8, T.sanity.mismatch + Len(T.sanity.large))
\* (not through the command line in Primary mode: there the info yaml lists haplotypes whose scaffolds are written to the merged all_haplotigs file)
JPas(T) == ("MODEL" \in Props /\ Ok(T) /\ "pas" \in DOMAIN T /\ ("route" \notin DOMAIN T \/ PrimaryHap(T) = "")) =>
  /\ Count(9, Len(T.pas))
  /\ (PasMatches(T) \/ PrintT(<<"M", T.tid, "per_assembly_stats", T.cls>>))
  /\ (PasBreaksAddUp(T) \/ PrintT(<<"M", T.tid, "per_assembly_breaks_add_up", T.cls>>))
\* M-clause "cli_file_set": the files the command line tool wrote are the ones OutputFiles.tla names for the assemblies the library returns
\* for the same scenario (T.lib_asms), nothing more and nothing less
JFiles(T) == ("MODEL" \in Props /\ Ok(T) /\ "lib_asms" \in DOMAIN T) =>
  /\ Count(10, Len(T.files))
  /\ ({T.files[q] : q \in 1..Len(T.files)} = ExpectedFiles(T.lib_asms, "x", "1", "agp") \/ PrintT(<<"M", T.tid, "cli_file_set", T.cls>>))
\* through the command line tool: the haplotig-removal count of the info yaml equals the number of haplotig scaffolds written
J11cli(T) == ("C11" \in Props /\ Ok(T) /\ T.style = "cli") =>
  (T.yaml_haplotig_removals = T.haplotig_scaffolds_written \/ Say(T, "C11.haplotig_removals", T.cls))
\* a scenario run through the command line tool (route = cli): T.stats holds the numbers of the log line "Curation made ..."; the info yaml
\* repeats the totals when it lists more than one assembly, and always holds the haplotig-removal count
J11route(T) == ("C11" \in Props /\ Ok(T) /\ "route" \in DOMAIN T) =>
  /\ ((T.log_stats.cuts >= 0 /\ T.yaml.present = 1) \/ Say(T, "C11.report_missing", T.cls))
  /\ (T.yaml.breaks < 0 \/ T.yaml.breaks = BreaksDef(T) \/ Say(T, "C11.yaml_breaks", Cls(T)))
  /\ (T.yaml.joins < 0 \/ T.yaml.joins = JoinsDef(T) \/ Say(T, "C11.yaml_joins", Cls(T)))
  /\ (T.yaml.haplotig_removals = T.haplotig_scaffolds_written \/ Say(T, "C11.haplotig_removals", T.cls))
J11(T) == ("C11" \in Props /\ Ok(T) /\ T.style # "cli") =>
  /\ (T.stats.cuts = CutsDef(T) \/ Say(T, "C11.cuts", Cls(T)))
  /\ (T.stats.breaks = BreaksDef(T) \/ Say(T, "C11.breaks", Cls(T)))
  /\ (T.stats.joins = JoinsDef(T) \/ Say(T, "C11.joins", Cls(T)))
Judge(T) == Count(1, 1) /\ J01(T) /\ J02(T) /\ J07(T) /\ J08(T) /\ J08p(T) /\ J09(T) /\ J10(T) /\ J10u(T) /\ J11(T) /\ J11cli(T) /\ J11route(T) /\ JModel(T) /\ JNaming(T) /\ JReports(T) /\ JPas(T) /\ JFiles(T)
TInit == tn = 0
TNext == tn < Len(Traces) /\ tn' = tn + 1 /\ Judge(Traces[tn + 1]) = TRUE
TraceSpec == TInit /\ [][TNext]_tn
Post == /\ PrintT(<<"JUDGED", TLCGet(1)>>) /\ PrintT(<<"N", "completed_runs", TLCGet(2)>>) /\ PrintT(<<"N", "pieces_with_core", TLCGet(3)>>)
        /\ PrintT(<<"N", "deep_cuts", TLCGet(4)>>) /\ PrintT(<<"N", "output_junctions", TLCGet(5)>>) /\ PrintT(<<"N", "null_maps", TLCGet(6)>>)
        /\ PrintT(<<"N", "report_rows", TLCGet(7)>>) /\ PrintT(<<"N", "sanity_warnings", TLCGet(8)>>) /\ PrintT(<<"N", "per_assembly_stat_entries", TLCGet(9)>>) /\ PrintT(<<"N", "cli_files_written", TLCGet(10)>>)
====
