---- MODULE NaturalSort ----
(***************************************************************************************************)
(* C20.  Numeric-aware ("natural") ordering of scaffold names.                                     *)
(*                                                                                                 *)
(* A name is a sequence of one-character strings.  Two things are specified:                       *)
(*  (1) the LAWS of the statement, independent of any key function: totality, consistency under    *)
(*      permutation of the input (up to names that differ only in leading zeros), decimal runs by  *)
(*      value, nematode numerals I..IV by value, an unloc directly after its own chromosome, rank  *)
(*      before name.  Laws are attached to scenarios as `claims` <<i, j>> = "name i comes before    *)
(*      name j in every output" by NaturalSortScen, and judged on recorded real outputs.           *)
(*  (2) an implementation-shaped model of the key (Tokens/KeyCmp: regular expression                *)
(*      IV|I{1,3}|\d+ with leftmost, first-alternative, greedy matching, numerals via the table,    *)
(*      tuple comparison), used for conformance (M-clause) and checked against the laws by TLC.    *)
(***************************************************************************************************)
EXTENDS Naturals, Integers, Sequences, FiniteSets, SequencesExt, FiniteSetsExt, TLC

Chars == <<"-", ".", "0", "1", "2", "3", "4", "5", "6", "7", "8", "9", "A", "B", "C", "D", "E", "F", "G", "H", "I", "J", "K", "L", "M", "N", "O", "P", "Q", "R", "S", "T", "U", "V", "W", "X", "Y", "Z", "_", "a", "b", "c", "d", "e", "f", "g", "h", "i", "j", "k", "l", "m", "n", "o", "p", "q", "r", "s", "t", "u", "v", "w", "x", "y", "z">>   \* ASCII order
CodeOf == [c \in Range(Chars) |-> CHOOSE i \in 1..Len(Chars) : Chars[i] = c]
Code(c) == CodeOf[c]
Digits == {"0", "1", "2", "3", "4", "5", "6", "7", "8", "9"}
IsDigit(c) == c \in Digits
DVal(c) == Code(c) - Code("0")
Sign(x) == IF x < 0 THEN -1 ELSE IF x > 0 THEN 1 ELSE 0
S2(a, b) == <<a, b>>

\* ------------------------------------------------------------------ generic run splitting
\* Pieces(nm, InCls): alternating pieces [run |-> BOOLEAN, s |-> chars], maximal runs of characters in the class
RECURSIVE PiecesFrom(_, _, _, _)
PiecesFrom(nm, p, InCls(_), acc) ==
  IF p > Len(nm) THEN acc
  ELSE LET c == InCls(nm[p])
           stop == {q \in p..Len(nm) : InCls(nm[q]) # c}
           q == IF stop = {} THEN Len(nm) ELSE Min(stop) - 1
       IN PiecesFrom(nm, q + 1, InCls, Append(acc, [run |-> c, s |-> SubSeq(nm, p, q)]))
Pieces(nm, InCls(_)) == PiecesFrom(nm, 1, InCls, <<>>)
\* a decimal run as a number of any size: its digits without leading zeros (TLC's integers end at 2^31; names may hold 20-digit numbers)
Strip(ds) == LET nz == {k \in 1..Len(ds) : ds[k] # "0"} IN IF nz = {} THEN <<"0">> ELSE SubSeq(ds, Min(nz), Len(ds))

\* coarse skeleton: every maximal run over [IVX0-9] becomes one wildcard (any sane key is injective on sets whose
\* skeletons are pairwise distinct)
Coarse(c) == c \in Digits \cup {"I", "V", "X"}
Skel(nm) == LET ps == Pieces(nm, Coarse) IN [k \in 1..Len(ps) |-> IF ps[k].run THEN <<"*">> ELSE ps[k].s]
\* leading-zero normal form: every maximal decimal run replaced by its value
\* (the value is kept as a string, so that sequences of pieces can be compared with each other without mixing integers and strings)
ZeroNorm(nm) == LET ps == Pieces(nm, IsDigit) IN [k \in 1..Len(ps) |-> IF ps[k].run THEN <<"#">> \o Strip(ps[k].s) ELSE ps[k].s]
NoNumeralLetters(nm) == \A k \in 1..Len(nm) : nm[k] \notin {"I", "V", "X"}

\* a set of names on which the statement fixes the output order up to leading zeros
SafePair(a, b) == Skel(a) # Skel(b) \/ (NoNumeralLetters(a) /\ NoNumeralLetters(b))
SafeSet(names) == \A i, j \in 1..Len(names) : i < j => SafePair(names[i], names[j])

\* ------------------------------------------------------------------ implementation-shaped key
Txt(s) == [n |-> 0, v |-> <<>>, s |-> s]
Num(v) == [n |-> 1, v |-> v, s |-> <<>>]
IRun(nm, p) == LET stop == {q \in p..Len(nm) : nm[q] # "I"}  e == IF stop = {} THEN Len(nm) ELSE Min(stop) - 1
               IN IF e - p + 1 > 3 THEN 3 ELSE e - p + 1
DRunEnd(nm, p) == LET stop == {q \in p..Len(nm) : ~IsDigit(nm[q])} IN IF stop = {} THEN Len(nm) ELSE Min(stop) - 1
RECURSIVE Scan(_, _, _, _)
Scan(nm, p, cur, acc) ==
  IF p > Len(nm) THEN Append(acc, Txt(cur))
  ELSE IF nm[p] = "I" /\ p < Len(nm) /\ nm[p + 1] = "V" THEN Scan(nm, p + 2, <<>>, acc \o <<Txt(cur), Num(<<"4">>)>>)
  ELSE IF nm[p] = "I" THEN Scan(nm, p + IRun(nm, p), <<>>, acc \o <<Txt(cur), Num(<<ToString(IRun(nm, p))>>)>>)
  ELSE IF IsDigit(nm[p]) THEN Scan(nm, DRunEnd(nm, p) + 1, <<>>, acc \o <<Txt(cur), Num(Strip(SubSeq(nm, p, DRunEnd(nm, p))))>>)
  ELSE Scan(nm, p + 1, Append(cur, nm[p]), acc)
Tokens(nm) == Scan(nm, 1, <<>>, <<>>)

TextCmp(a, b) == LET n == IF Len(a) < Len(b) THEN Len(a) ELSE Len(b)
                     d == {k \in 1..n : a[k] # b[k]}
                 IN IF d = {} THEN Sign(Len(a) - Len(b)) ELSE Sign(Code(a[Min(d)]) - Code(b[Min(d)]))
\* numbers: more digits = larger; equally many digits: the first different digit decides
NumCmp(a, b) == IF Len(a) # Len(b) THEN Sign(Len(a) - Len(b)) ELSE TextCmp(a, b)
TokCmp(x, y) == IF x.n = 1 THEN NumCmp(x.v, y.v) ELSE TextCmp(x.s, y.s)
KeyCmp(a, b) == LET ka == Tokens(a)  kb == Tokens(b)
                    n == IF Len(ka) < Len(kb) THEN Len(ka) ELSE Len(kb)
                    d == {k \in 1..n : TokCmp(ka[k], kb[k]) # 0}
                IN IF d = {} THEN Sign(Len(ka) - Len(kb)) ELSE TokCmp(ka[Min(d)], kb[Min(d)])

\* out (a sequence of indexes into names) is the stable sort of names by (rank, key)
IsStableSorted(names, ranks, out) ==
  /\ Len(out) = Len(names) /\ {out[k] : k \in 1..Len(out)} = 1..Len(names)
  /\ \A k \in 1..(Len(out) - 1) :
       LET a == out[k]  b == out[k + 1]  c == IF ranks[a] # ranks[b] THEN Sign(ranks[a] - ranks[b]) ELSE KeyCmp(names[a], names[b])
       IN c < 0 \/ (c = 0 /\ a < b)
====
