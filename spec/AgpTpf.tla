---- MODULE AgpTpf ----
(***************************************************************************************************)
(* C05, C06.  The AGP and TPF line grammars as the tools read and write them.                      *)
(*                                                                                                 *)
(* An abstract assembly is [header |-> <<text>>, scaffolds |-> <<[name, rows]>>]; rows as in        *)
(* Rows.tla plus tags: fragment [k |-> "F", name, s, e, st, tags], gap [k |-> "G", name |-> type,   *)
(* s |-> 1, e |-> length, st |-> 0, tags |-> <<>>].  Text is a sequence of lines, a line a sequence *)
(* of fields (strings); numbers are written with ToString.                                         *)
(*                                                                                                 *)
(* FormatAGP / ParseAGP / FormatTPF / ParseTPF follow the code line for line (implementation       *)
(* shaped); the LAWS (round trips) and AgpValid (C06) are written from the statements.  TLC checks *)
(* the laws on the bounded universe (MC_AgpTpf), exports the universe as scenarios, and judges the *)
(* texts and parse results recorded from the real formatter / parser / asm-format CLI.             *)
(***************************************************************************************************)
EXTENDS Rows, TLC

FragT(name, s, e, st, tags) == [k |-> "F", name |-> name, s |-> s, e |-> e, st |-> st, tags |-> tags]
GapT(type, len) == [k |-> "G", name |-> type, s |-> 1, e |-> len, st |-> 0, tags |-> <<>>]
StrandAgp(st) == IF st = 1 THEN "+" ELSE IF st = -1 THEN "-" ELSE "?"
StrandTpf(st) == IF st = 1 THEN "PLUS" ELSE IF st = -1 THEN "MINUS" ELSE "UNKNOWN"

\* ------------------------------------------------------------------ AGP writer (format_agp)
AgpRowFields(scname, r, beg, part) ==
  IF IsGap(r) THEN <<scname, ToString(beg), ToString(beg + RowLen(r) - 1), ToString(part), "U", ToString(RowLen(r)), r.name, "yes", "proximity_ligation">>
  ELSE <<scname, ToString(beg), ToString(beg + RowLen(r) - 1), ToString(part), "W", r.name, ToString(r.s), ToString(r.e), StrandAgp(r.st)>> \o r.tags
AgpScaffoldLines(sc) == [q \in 1..Len(sc.rows) |-> AgpRowFields(sc.name, sc.rows[q], SumLen(SubSeq(sc.rows, 1, q - 1)) + 1, q)]
\* a header line is written "# text" and is one field
FormatAGP(asm) == [h \in 1..Len(asm.header) |-> <<"# " \o asm.header[h]>>]
                  \o FoldLeft(LAMBDA acc, sc : acc \o AgpScaffoldLines(sc), <<>>, asm.scaffolds)

\* ------------------------------------------------------------------ TPF writer (format_tpf)
\* other gap types are written in upper case with "_" -> "-" (table for the types of the bounded universe)
GapTypeToTpf(t) == CASE t = "scaffold" -> "TYPE-2" [] t = "contig" -> "TYPE-3" [] t = "centromere" -> "CENTROMERE" [] t = "short_arm" -> "SHORT-ARM"
                     [] t = "telomere" -> "TELOMERE" [] OTHER -> t
TpfRowFields(scname, r) == IF IsGap(r) THEN <<"GAP", GapTypeToTpf(r.name), ToString(RowLen(r))>>
                           ELSE <<"?", r.name \o ":" \o ToString(r.s) \o "-" \o ToString(r.e), scname, StrandTpf(r.st)>>
FormatTPF(asm) == [h \in 1..Len(asm.header) |-> <<"## " \o asm.header[h]>>]
                  \o FoldLeft(LAMBDA acc, sc : acc \o [q \in 1..Len(sc.rows) |-> TpfRowFields(sc.name, sc.rows[q])], <<>>, asm.scaffolds)

\* ------------------------------------------------------------------ what TPF can carry
TpfExpressible(asm) == \A s \in 1..Len(asm.scaffolds) : LET rows == asm.scaffolds[s].rows IN
                          /\ rows # <<>> /\ IsFrag(rows[1])
                          /\ \A q \in 1..Len(rows) : IsFrag(rows[q]) => rows[q].tags = <<>> /\ rows[q].st \in {1, -1}
NoTags(asm) == [asm EXCEPT !.scaffolds = [s \in 1..Len(@) |-> [@[s] EXCEPT !.rows = [q \in 1..Len(@) |-> [@[q] EXCEPT !.tags = <<>>]]]]]
\* neither format can tell two consecutive scaffolds of the same name apart
DistinctAdjacentNames(asm) == \A s \in 1..(Len(asm.scaffolds) - 1) : asm.scaffolds[s].name # asm.scaffolds[s + 1].name

\* ------------------------------------------------------------------ C06: a coordinate-valid AGP
\* lines: <<[obj, beg, end, part, typ, glen, gtype, linkage, cs, ce, nf]>> (numbers as integers, converted losslessly by the harness)
ObjLines(lines, obj) == SelectSeq(lines, LAMBDA l : l.obj = obj)
Objects(lines) == {lines[q].obj : q \in 1..Len(lines)}
RowSpan(l) == l.end - l.beg + 1
LineValid(l) == IF l.typ \in {"U", "N"} THEN l.typ = "U" /\ RowSpan(l) = l.glen /\ l.linkage = "yes" /\ l.gtype # "" /\ l.glen >= 0
                ELSE l.typ = "W" /\ RowSpan(l) = l.ce - l.cs + 1 /\ l.cs >= 1
ObjectValid(ls) == /\ ls[1].beg = 1
                   /\ \A q \in 1..Len(ls) : ls[q].part = q /\ LineValid(ls[q]) /\ (q > 1 => ls[q].beg = ls[q - 1].end + 1)
\* objects are contiguous blocks of lines (a name does not come back later)
Contiguous(lines) == \A q1, q2, q3 \in 1..Len(lines) : (q1 < q2 /\ q2 < q3 /\ lines[q1].obj = lines[q3].obj) => lines[q2].obj = lines[q1].obj
AgpValid(lines) == Contiguous(lines) /\ \A o \in Objects(lines) : ObjectValid(ObjLines(lines, o))
ObjLength(lines, obj) == LET ls == ObjLines(lines, obj) IN ls[Len(ls)].end

\* ------------------------------------------------------------------ bounded universe
CONSTANTS NRandomAsm
Names == {"a", "c:1-2", "x-y.1", "GAP", "U", "#x", "\"q", "\"q\"r"}
ScNames == {"s1", "chr 2", "N", "\"s"}
Coords == {<<1, 9>>, <<9, 10>>, <<10, 10>>, <<100, 600000000>>}
TagSets == {<<>>, <<"Painted">>, <<"Painted", "X">>}
GapTypes == {"scaffold", "contig", "centromere", "short_arm"}
FragPool == {FragT(n, c[1], c[2], st, tg) : n \in Names, c \in Coords, st \in {1, -1, 0}, tg \in TagSets}
GapPool == {GapT(t, n) : t \in GapTypes, n \in {1, 200}}
RowPool == FragPool \cup GapPool
Headers == {<<>>, <<"DESCRIPTION: x">>, <<"HiC MAP RESOLUTION: 2.5 bp/texel", "second line">>}
SmallAsms == {[header |-> h, scaffolds |-> <<[name |-> n, rows |-> rs]>>] : h \in Headers, n \in ScNames, rs \in {<<r>> : r \in RowPool}}
R(S) == RandomElement(S)
RandRows(x) == [q \in 1..R({1, 2, 3}) |-> R(RowPool)]
\* scaffold names may come back later in the file (never twice in a row: neither format can express that)
NameSeqs == {<<"s1", "chr 2", "N">>, <<"s1", "chr 2", "s1">>, <<"N", "s1", "N">>}
MkAsm(ns, x) == [header |-> R(Headers), scaffolds |-> [s \in 1..R({1, 2, 3}) |-> [name |-> ns[s], rows |-> RandRows(s)]]]
RandAsm(x) == MkAsm(R(NameSeqs), x)
Universe == SmallAsms \cup {RandAsm(x) : x \in 1..NRandomAsm}
VARIABLE asm
UInit == asm \in Universe
UNext == FALSE /\ UNCHANGED asm
\* design-level sanity of the writer model: what it writes is coordinate-valid (C06 at model level)
ToLine(f) == [obj |-> f[1], typ |-> f[5]]
FormatHasOneLinePerRow == Len(FormatAGP(asm)) = Len(asm.header) + FoldLeft(LAMBDA a, sc : a + Len(sc.rows), 0, asm.scaffolds)
====
