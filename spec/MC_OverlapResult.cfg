SPECIFICATION Spec
CONSTANTS MaxRows = 3 Lens = {1, 2, 5} ErrLens = {1, 2, 3}
INVARIANT InvSpan
INVARIANT InvRun
INVARIANT InvNoTerminalGap
VIEW View
CHECK_DEADLOCK FALSE
