---- MODULE NaturalSortTrace ----
(***************************************************************************************************)
(* Trace validation for C20.  One trace = one scenario of NaturalSortScen sorted by the REAL code  *)
(* (Assembly.scaffolds_sorted_by_name -> outN, Assembly.smart_sort_scaffolds -> outR) for several  *)
(* input orders:  [tid, fam, names, ranks, claims, runs |-> <<[perm, exc, outN, outR]>>]           *)
(* perm/outN/outR are sequences of indexes into `names`.                                           *)
(***************************************************************************************************)
EXTENDS NaturalSort, Json, IOUtils, TLCExt
Traces == JsonDeserialize(IOEnv.TRACE_FILE)
ASSUME TLCSet(1, 0) /\ TLCSet(2, 0) /\ TLCSet(3, 0)
VARIABLE k
Say(T, kind, clause, detail) == PrintT(<<kind, T.tid, clause, detail>>)
PosIn(seq, v) == CHOOSE p \in 1..Len(seq) : seq[p] = v
Before(out, a, b) == PosIn(out, a) < PosIn(out, b)
ClaimClause(fam) == CASE fam = "F3" -> "C20.decimal_by_value" [] fam = "F4" -> "C20.numeral_by_value"
                      [] fam \in {"F5", "F5n"} -> "C20.unloc_after_chromosome" [] fam = "F6" -> "C20.rank_first" [] OTHER -> "C20.consistent"
ZSeq(T, out) == [p \in 1..Len(out) |-> ZeroNorm(T.names[out[p]])]
IsPerm(out, n) == Len(out) = n /\ {out[p] : p \in 1..Len(out)} = 1..n

JudgeRun(T, r, first) ==
  LET n == Len(T.names) IN
  IF r.exc # "" THEN Say(T, "V", "C20.never_fails", r.exc)
  ELSE IF ~(IsPerm(r.outN, n) /\ IsPerm(r.outR, n)) THEN Say(T, "V", "C20.never_fails", "output-is-not-a-permutation")
  ELSE
  /\ \A c \in 1..Len(T.claims) :
        LET a == T.claims[c][1]  b == T.claims[c][2] IN
        (Before(r.outR, a, b) /\ (T.ranks[a] = T.ranks[b] => Before(r.outN, a, b))) \/ Say(T, "V", ClaimClause(T.fam), T.fam)
  /\ (\A p \in 1..(n - 1) : T.ranks[r.outR[p]] <= T.ranks[r.outR[p + 1]]) \/ Say(T, "V", "C20.rank_first", "ranks-not-monotone")
  /\ (first.exc # "" \/ ~SafeSet(T.names) \/ (ZSeq(T, r.outN) = ZSeq(T, first.outN) /\ ZSeq(T, r.outR) = ZSeq(T, first.outR))
        \/ Say(T, "V", "C20.consistent", T.fam))
  \* history: after the same scaffold objects were renamed in place (the names rotated among them) the same multiset of names comes out
  \* in the same order (outN2: base indexes of the names in output order)
  /\ (~SafeSet(T.names) \/ Len(r.outN2) # n \/ ZSeq(T, r.outN2) = ZSeq(T, r.outN) \/ Say(T, "V", "C20.consistent", T.fam \o "/after-rename"))
  /\ LET inNames == [p \in 1..n |-> T.names[r.perm[p]]]  inRanks == [p \in 1..n |-> T.ranks[r.perm[p]]]
         outIn(o) == [p \in 1..n |-> PosIn(r.perm, o[p])]
     IN (IsStableSorted(inNames, inRanks, outIn(r.outR)) /\ IsStableSorted(inNames, [p \in 1..n |-> 1], outIn(r.outN)))
        \/ Say(T, "M", "natural_key", T.fam)

Judge(T) == /\ TLCSet(1, TLCGet(1) + 1)
            /\ TLCSet(2, TLCGet(2) + Len(T.runs))
            /\ TLCSet(3, TLCGet(3) + (IF SafeSet(T.names) /\ Len(T.names) > 1 THEN 1 ELSE 0))
            /\ \A q \in 1..Len(T.runs) : JudgeRun(T, T.runs[q], T.runs[1])
TInit == k = 0
TNext == k < Len(Traces) /\ k' = k + 1 /\ Judge(Traces[k + 1]) = TRUE
TraceSpec == TInit /\ [][TNext]_k
Post == PrintT(<<"JUDGED", TLCGet(1)>>) /\ PrintT(<<"N", "sort_calls", TLCGet(2)>>) /\ PrintT(<<"N", "safe_sets", TLCGet(3)>>)
====
