---- MODULE RemapProps ----
(***************************************************************************************************)
(* The property predicates of the remapper (C01, C02, C07, C08, C11), written from the property    *)
(* statements only.  They are functions of one recorded execution                                  *)
(*   T = [tn, td, valid, input, map, status, out, stats]                                           *)
(* input: <<[name, rows]>>; map: <<[painted, pieces |-> <<[src, a, b, st, tags]>>]>>;              *)
(* out: <<[asm, name, rows, ...]>> (all output scaffolds of all output assemblies);                *)
(* rows are Rows.tla records.  Nothing here refers to how the code works.                          *)
(***************************************************************************************************)
EXTENDS Rows, TLC

ErrLenT(T) == 1 + T.tn \div T.td
MarginT(T) == 3 * ErrLenT(T)
JoinGap == GapRow("scaffold", 200)
Ok(T) == T.status = "ok"

Frags(rows) == SelectSeq(rows, IsFrag)
InContigs(T) == FoldLeft(LAMBDA a, s : a \o Frags(s.rows), <<>>, T.input)
OutFrags(T) == FoldLeft(LAMBDA a, s : a \o Frags(s.rows), <<>>, T.out)
Inside(f, c) == f.name = c.name /\ c.s <= f.s /\ f.e <= c.e
Disjoint(f, g) == f.e < g.s \/ g.e < f.s

\* ------------------------------------------------------------------ C01
\* every output fragment is a sub-interval of exactly one input contig of that name ...
SubIntervalOfOne(T) == LET ic == InContigs(T)  of == OutFrags(T) IN
   \A q \in 1..Len(of) : Cardinality({c \in 1..Len(ic) : Inside(of[q], ic[c])}) = 1
\* ... and every base of every input contig lies in exactly one output fragment
ExactPartition(T) == LET ic == InContigs(T)  of == OutFrags(T) IN
   \A c \in 1..Len(ic) :
      LET ins == {q \in 1..Len(of) : Inside(of[q], ic[c])} IN
      /\ \A q1, q2 \in ins : q1 < q2 => Disjoint(of[q1], of[q2])
      /\ FoldSet(LAMBDA q, acc : acc + RowLen(of[q]), 0, ins) = RowLen(ic[c])
Conservation(T) == Ok(T) => SubIntervalOfOne(T) /\ ExactPartition(T)

\* ------------------------------------------------------------------ layout: where a base is
\* one cell per base [b |-> TRUE, n, p, s] and ONE cell per gap row [b |-> FALSE, n |-> type, p |-> length, s |-> 0]
Cell(b, n, p, s) == [b |-> b, n |-> n, p |-> p, s |-> s]
RowCells(r) == IF IsGap(r) THEN <<Cell(FALSE, r.name, RowLen(r), 0)>>
               ELSE IF r.st = -1 THEN [q \in 1..RowLen(r) |-> Cell(TRUE, r.name, r.e - q + 1, -1)]
               ELSE [q \in 1..RowLen(r) |-> Cell(TRUE, r.name, r.s + q - 1, r.st)]
Layout(rows) == FoldLeft(LAMBDA acc, r : acc \o RowCells(r), <<>>, rows)
\* cells of scaffold positions lo..hi (1-based); a gap row contributes its single cell if any of it lies inside
Window(rows, lo, hi) ==
  (FoldLeft(LAMBDA a, r :
      LET st == a.pos + 1  en == a.pos + RowLen(r)
          cells == IF en < lo \/ st > hi \/ RowLen(r) = 0 THEN <<>>
                   ELSE IF IsGap(r) THEN RowCells(r)
                   ELSE SubSeq(RowCells(r), MaxI(lo - st + 1, 1), MinI(hi - st + 1, RowLen(r)))
      IN [pos |-> en, cells |-> a.cells \o cells],
    [pos |-> 0, cells |-> <<>>], rows)).cells
TrimGapCells(c) == LET bs == {q \in 1..Len(c) : c[q].b} IN IF bs = {} THEN <<>> ELSE SubSeq(c, Min(bs), Max(bs))
FlipCells(c) == [q \in 1..Len(c) |-> LET x == c[Len(c) + 1 - q] IN IF x.b THEN [x EXCEPT !.s = -x.s] ELSE x]
Occurs(hay, nd) == {q \in 1..(Len(hay) - Len(nd) + 1) : hay[q] = nd[1] /\ SubSeq(hay, q, q + Len(nd) - 1) = nd}
Src(T, n) == CHOOSE s \in Range(T.input) : s.name = n
AllPieces(T) == {<<g, p>> \in (1..Len(T.map)) \X (1..8) : p <= Len(T.map[g].pieces)}

\* ------------------------------------------------------------------ C02
Completes(T) == T.valid = 1 => Ok(T)
\* the core of a piece: bases more than Margin from both ends of the bait (clipped to the scaffold), without terminal gaps,
\* oriented as input orientation x piece orientation
Core(T, pc) ==
  LET rows == Src(T, pc.src).rows  M == MarginT(T)
      lo == pc.a + M + 1   hi == MinI(pc.b, SumLen(rows)) - M - 1
      hi2 == MinI(hi, pc.b - M - 1)
      cells == IF hi2 >= lo THEN TrimGapCells(Window(rows, lo, hi2)) ELSE <<>>
  IN IF pc.st = -1 THEN FlipCells(cells) ELSE cells
\* where the core occurs in the output: set of <<output scaffold index, position>>
CoreHits(T, outL, pc) == LET nd == Core(T, pc) IN UNION {{<<o, q>> : q \in Occurs(outL[o], nd)} : o \in 1..Len(outL)}
CoreRunCollinear(T) ==
  LET outL == [o \in 1..Len(T.out) |-> Layout(T.out[o].rows)] IN
  \A x \in AllPieces(T) : LET pc == T.map[x[1]].pieces[x[2]] IN Core(T, pc) = <<>> \/ Cardinality(CoreHits(T, outL, pc)) = 1
PretextOrder(T) ==
  LET outL == [o \in 1..Len(T.out) |-> Layout(T.out[o].rows)] IN
  \A g \in 1..Len(T.map) : \A p1, p2 \in 1..Len(T.map[g].pieces) :
     LET h1 == CoreHits(T, outL, T.map[g].pieces[p1])  h2 == CoreHits(T, outL, T.map[g].pieces[p2]) IN
     (p1 < p2 /\ Core(T, T.map[g].pieces[p1]) # <<>> /\ Core(T, T.map[g].pieces[p2]) # <<>> /\ Cardinality(h1) = 1 /\ Cardinality(h2) = 1)
        => LET a == CHOOSE h \in h1 : TRUE  b == CHOOSE h \in h2 : TRUE IN a[1] = b[1] => a[2] < b[2]
\* a piece boundary strictly inside a contig and deeper than Margin from both of its ends splits the contig exactly there
CutAt(rows, q) == LET w == Window(rows, q, q + 1) IN
                  IF q >= 1 /\ Len(w) = 2 /\ w[1].b /\ w[2].b /\ w[1].n = w[2].n /\ Abs(w[1].p - w[2].p) = 1 THEN {<<w[1].n, MinI(w[1].p, w[2].p)>>} ELSE {}
DeepCuts(T) == UNION {LET pc == T.map[x[1]].pieces[x[2]]  rows == Src(T, pc.src).rows IN CutAt(rows, pc.a - 1) \cup CutAt(rows, pc.b) : x \in AllPieces(T)}
\* a cut <<name, p>> (between p and p + 1) is deep when the contig containing it extends more than Margin on both sides
IsDeep(T, cut) == \E c \in Range(InContigs(T)) : c.name = cut[1] /\ c.s <= cut[2] /\ cut[2] + 1 <= c.e
                                               /\ cut[2] - c.s + 1 > MarginT(T) /\ c.e - (cut[2] + 1) + 1 > MarginT(T)
DeepCutExact(T) == \A cut \in DeepCuts(T) : IsDeep(T, cut) =>
                      ~\E f \in Range(OutFrags(T)) : f.name = cut[1] /\ f.s <= cut[2] /\ cut[2] + 1 <= f.e

\* ------------------------------------------------------------------ contig ends and adjacencies (C07, C11)
RightEnd(r) == IF r.st = -1 THEN <<r.name, r.s, "L">> ELSE <<r.name, r.e, "R">>   \* the end of r facing the next row
LeftEnd(r) == IF r.st = -1 THEN <<r.name, r.e, "R">> ELSE <<r.name, r.s, "L">>    \* the end of r facing the previous row
\* junctions of a scaffold: for consecutive fragment rows (ignoring gap rows) [pair, gaps]
Junctions(rows) ==
  LET fi == SelectSeq([q \in 1..Len(rows) |-> q], LAMBDA q : IsFrag(rows[q]))
  IN [n \in 1..(Len(fi) - 1) |-> [pair |-> {RightEnd(rows[fi[n]]), LeftEnd(rows[fi[n + 1]])}, gaps |-> SubSeq(rows, fi[n] + 1, fi[n + 1] - 1)]]
AllJunctions(scaffolds) == FoldLeft(LAMBDA a, s : a \o Junctions(s.rows), <<>>, scaffolds)
AdjSet(js) == {js[n].pair : n \in 1..Len(js)}
DirectSet(js) == {js[n].pair : n \in {m \in 1..Len(js) : js[m].gaps = <<>>}}

DirectAdjOnlyIfInput(T) == Ok(T) => DirectSet(AllJunctions(T.out)) \subseteq DirectSet(AllJunctions(T.input))
NoTerminalGaps(T) == Ok(T) => \A o \in 1..Len(T.out) : LET r == T.out[o].rows IN r # <<>> => IsFrag(r[1]) /\ IsFrag(r[Len(r)])
\* for maps PretextView can produce: every gap run is the join gap or the input's gap run between the same two ends
GapProvenance(T) == (Ok(T) /\ T.valid = 1) =>
   LET ij == AllJunctions(T.input)  oj == AllJunctions(T.out) IN
   \* (the sentence is about each gap ROW: it must be one of the input gap rows between the same two contig ends - same length and type -
   \* or the join gap; a run of several input gap rows may come out reversed, or - for a scaffold rebuilt from left-over contigs - shortened)
   \A n \in 1..Len(oj) : \A q \in 1..Len(oj[n].gaps) :
        oj[n].gaps[q] = JoinGap \/ \E m \in 1..Len(ij) : ij[m].pair = oj[n].pair /\ \E w \in 1..Len(ij[m].gaps) : ij[m].gaps[w] = oj[n].gaps[q]
NonNeighboursUseJoinGap(T) == (Ok(T) /\ T.valid = 1) =>
   LET ia == AdjSet(AllJunctions(T.input))  oj == AllJunctions(T.out) IN
   \A n \in 1..Len(oj) : oj[n].pair \notin ia => oj[n].gaps = <<JoinGap>>

\* ------------------------------------------------------------------ C08
InputPos(T, n) == CHOOSE q \in 1..Len(T.input) : T.input[q].name = n
WholeUncut(T, pnt) ==
                /\ T.valid = 1
                /\ \A g \in 1..Len(T.map) : T.map[g].painted = pnt /\ Len(T.map[g].pieces) = 1 /\ T.map[g].pieces[1].st = 1
                                            /\ T.map[g].pieces[1].a = 1 /\ T.map[g].pieces[1].tags = <<>>
                /\ \A g1, g2 \in 1..Len(T.map) : g1 < g2 => InputPos(T, T.map[g1].pieces[1].src) < InputPos(T, T.map[g2].pieces[1].src)
                \* "with Pretext's rounding of scaffold ends": the scaffold is shown with floor(L/t) or ceil(L/t) texels and ends at floor(texels * t)
                \* (so up to floor(t) + 1 bases may be missing: one texel of the count, one base of the floor)
                /\ \A g \in 1..Len(T.map) : LET L == SumLen(Src(T, T.map[g].pieces[1].src).rows)  b == T.map[g].pieces[1].b IN
                       \E n \in {(L * T.td) \div T.tn, (L * T.td + T.tn - 1) \div T.tn} : b = (n * T.tn) \div T.td
IsNullMap(T) == WholeUncut(T, 0)
IsPaintedNullMap(T) == WholeUncut(T, 1)
\* (a scaffold absent from the map is re-added whole, whatever the length of its contigs: the condition concerns the scaffolds shown)
InMap(T, s) == \E x \in AllPieces(T) : T.map[x[1]].pieces[x[2]].src = T.input[s].name
LastContigAtLeastOneTexel(T) == \A s \in 1..Len(T.input) : LET fr == Frags(T.input[s].rows) IN fr # <<>> /\ (InMap(T, s) => RowLen(fr[Len(fr)]) * T.td >= T.tn)
NoTerminalGapRows(T) == \A s \in 1..Len(T.input) : LET r == T.input[s].rows IN IsFrag(r[1]) /\ IsFrag(r[Len(r)])
NullPre(T) == LastContigAtLeastOneTexel(T) /\ NoTerminalGapRows(T)
NameRows(ss) == [q \in 1..Len(ss) |-> [name |-> ss[q].name, rows |-> ss[q].rows]]
NullMapIdentity(T) == Ok(T) /\ NameRows(T.out) = NameRows(T.input) /\ \A o \in 1..Len(T.out) : T.out[o].asm = ""
NullMapStatsZero(T) == Ok(T) /\ T.stats.cuts = 0 /\ T.stats.breaks = 0 /\ T.stats.joins = 0
\* all scaffolds painted, nothing else: same row contents (as a bag), names = prefix + rank by size
BagOfRows(ss) == [r \in {ss[q].rows : q \in 1..Len(ss)} |-> Cardinality({q \in 1..Len(ss) : ss[q].rows = r})]

\* painted: content unchanged (every input scaffold's rows appear once), the painted ones are called SUPER_1..n by size
Named(T, n) == {o \in 1..Len(T.out) : T.out[o].name = "SUPER_" \o ToString(n)}
PaintedNullMapContentEqual(T) ==
  /\ Ok(T) /\ BagOfRows(T.out) = BagOfRows(T.input) /\ \A o \in 1..Len(T.out) : T.out[o].asm = ""
  /\ \A n \in 1..Len(T.map) : Cardinality(Named(T, n)) = 1
  /\ \A n \in 1..(Len(T.map) - 1) : \A o1 \in Named(T, n) : \A o2 \in Named(T, n + 1) :
        SumLen(Frags(T.out[o1].rows)) >= SumLen(Frags(T.out[o2].rows))
  /\ Cardinality({o \in 1..Len(T.out) : T.out[o].rank = 1}) = Len(T.map)

\* ------------------------------------------------------------------ C09 (routing by tag, Target mode, haplotype)
HasTag(pc, tg) == \E q \in 1..Len(pc.tags) : pc.tags[q] = tg
GroupHasTag(grp, tg) == \E p \in 1..Len(grp.pieces) : HasTag(grp.pieces[p], tg)
TargetSeenUpTo(T, g) == \E h \in 1..g : GroupHasTag(T.map[h], "Target")
TargetEver(T) == Len(T.map) > 0 /\ TargetSeenUpTo(T, Len(T.map))
\* haplotype of a name of the haplotype-resolved style: the part before the first underscore, lower case ("" = none);
\* the scenario generator uses exactly two spellings per haplotype
LcTag(tg) == IF tg \in {"HAP1", "Hap1"} THEN "hap1" ELSE IF tg \in {"hap2", "HAP2"} THEN "hap2" ELSE IF tg \in {"Hap3", "HAP3"} THEN "hap3" ELSE IF tg \in {"MAT", "Mat"} THEN "mat" ELSE IF tg \in {"pat", "Pat"} THEN "pat" ELSE ""
\* T.haps[s] = haplotype (lower case, "" = none) that the NAME of input scaffold s stands for, as exported by the scenario model
GroupHap(T, grp) == LET tagged == {LcTag(x) : x \in UNION {{grp.pieces[p].tags[q] : q \in 1..Len(grp.pieces[p].tags)} : p \in 1..Len(grp.pieces)}} \ {""}
                    IN IF tagged # {} THEN CHOOSE h \in tagged : TRUE ELSE T.haps[InputPos(T, grp.pieces[1].src)]
\* the assembly (lower-case key; "" = primary) the statement sends a piece to
PieceDest(T, g, p) ==
  LET pc == T.map[g].pieces[p] IN
  IF HasTag(pc, "FalseDuplicate") THEN "falseduplicate"
  ELSE IF HasTag(pc, "Haplotig") THEN "haplotig"
  ELSE IF HasTag(pc, "Contaminant") \/ (TargetSeenUpTo(T, g) /\ ~GroupHasTag(T.map[g], "Target")) THEN "contaminant"
  ELSE GroupHap(T, T.map[g])
\* "Primary" mode (a multi-haplotype map in which only one haplotype is curated): the haplotype of the scaffold carrying the Primary tag is
\* written as THE primary assembly.  Through the library its assembly is keyed "Primary"; the command line tool writes it to
\* <root>.<v>.primary.curated.* (read back as key "") and merges every other haplotype into <root>.<v>.all_haplotigs.curated.*
PrimaryGroups(T) == {g \in 1..Len(T.map) : GroupHasTag(T.map[g], "Primary")}
PrimaryHap(T) == IF PrimaryGroups(T) = {} THEN "" ELSE GroupHap(T, T.map[CHOOSE g \in PrimaryGroups(T) : TRUE])
IsHapKey(d) == d \in {"hap1", "hap2", "hap3", "mat", "pat"}
DestKey(T, d) == IF PrimaryHap(T) = "" \/ ~IsHapKey(d) THEN d
                 ELSE IF "route" \in DOMAIN T THEN (IF d = PrimaryHap(T) THEN "" ELSE "all_haplotig")
                 ELSE (IF d = PrimaryHap(T) THEN "primary" ELSE d)
RoutedByTag(T) ==
  LET outL == [o \in 1..Len(T.out) |-> Layout(T.out[o].rows)] IN
  \A x \in AllPieces(T) :
     LET pc == T.map[x[1]].pieces[x[2]]  hits == CoreHits(T, outL, pc) IN
     (Core(T, pc) # <<>>) => (Cardinality(hits) = 1 /\ T.out[(CHOOSE h \in hits : TRUE)[1]].asm_lc = DestKey(T, PieceDest(T, x[1], x[2])))
\* "that haplotype's assembly": haplotype names are compared case-insensitively, so no two output assemblies may differ in letter case only
OneAssemblyPerHaplotype(T) == \A o1, o2 \in 1..Len(T.out) : T.out[o1].asm_lc = T.out[o2].asm_lc => T.out[o1].asm = T.out[o2].asm
\* sequence absent from the map: contaminant once a Target tag exists anywhere, otherwise the assembly of its name's haplotype
AbsentScaffolds(T) == {s \in 1..Len(T.input) : \A x \in AllPieces(T) : T.map[x[1]].pieces[x[2]].src # T.input[s].name}
AbsentRouted(T) ==
  \A s \in AbsentScaffolds(T) : \A c \in Range(Frags(T.input[s].rows)) : \A o \in 1..Len(T.out) :
     (\E f \in Range(Frags(T.out[o].rows)) : Inside(f, c)) => T.out[o].asm_lc = (IF TargetEver(T) THEN "contaminant" ELSE DestKey(T, T.haps[s]))

\* ------------------------------------------------------------------ C11
CutsDef(T) == Len(OutFrags(T)) - Len(InContigs(T))
BreaksDef(T) == Cardinality(AdjSet(AllJunctions(T.input)) \ AdjSet(AllJunctions(T.out)))
JoinsDef(T) == Cardinality(AdjSet(AllJunctions(T.out)) \ AdjSet(AllJunctions(T.input)))
StatsMatch(T) == Ok(T) => T.stats.cuts = CutsDef(T) /\ T.stats.breaks = BreaksDef(T) /\ T.stats.joins = JoinsDef(T)
====
