---- MODULE Fasta ----
(***************************************************************************************************)
(* C03, C04, C13, C14.  FASTA files, their index, random access, and streaming of assemblies.      *)
(*                                                                                                 *)
(* A file is a sequence of records [name, hlen, res, w, eol]: res = residues (one-character        *)
(* strings), w = line width, eol = terminator width (1 = LF, 2 = CRLF), hlen = bytes of the header *)
(* line without its terminator; plus the flag fnl (final newline present).                         *)
(*                                                                                                 *)
(* Part 1  definitions written from the statements: byte layout, the faidx quintuple (DefIndex),   *)
(*         the derived assembly (DefRows: maximal ACGT runs / other runs), reverse complement,     *)
(*         the expected stream of an assembly (Expected, Wrap).                                    *)
(* Part 2  the indexer as the code performs it: a line-by-line state machine with a buffer that is *)
(*         flushed when it exceeds B (variables below; `held` = residues in memory - C13).         *)
(* Part 3  seek arithmetic of sequence_bytes (first line / whole lines / last line) on the layout. *)
(* Part 4  chunk iterators (forward, reverse, gap) and the line-wrap machine (`want`).             *)
(* Fixed = FALSE reproduces the code as found (defect D3: the terminator is sliced off even where  *)
(* the last line has none).                                                                        *)
(***************************************************************************************************)
EXTENDS Rows, TLC
CONSTANTS MaxRecs, MaxLen, Alphabet, Widths, Bufs, Fixed

BaseSet == {"A", "C", "G", "T", "a", "c", "g", "t"}
IsBase(c) == c \in BaseSet

\* ------------------------------------------------------------------ Part 1: definitions
NLines(r) == (Len(r.res) + r.w - 1) \div r.w
\* bytes of record k (header + sequence lines), the last line of the file has no terminator unless fnl
RecBytes(f, fnl, k) == f[k].hlen + f[k].eol + Len(f[k].res) + NLines(f[k]) * f[k].eol - (IF k = Len(f) /\ ~fnl THEN f[k].eol ELSE 0)
Offset(f, fnl, k) == SumLen([i \in 1..(k - 1) |-> [s |-> 1, e |-> RecBytes(f, fnl, i)]]) + f[k].hlen + f[k].eol
FirstLine(r) == IF Len(r.res) < r.w THEN Len(r.res) ELSE r.w
DefIndex(f, fnl, k) == [name |-> f[k].name, len |-> Len(f[k].res), off |-> Offset(f, fnl, k), rpl |-> FirstLine(f[k]), mll |-> FirstLine(f[k]) + f[k].eol]

\* maximal runs -> rows of the derived assembly (fragment coordinates 1-based inclusive, forward strand)
RunEnd(res, s) == LET b == IsBase(res[s])  stop == {x \in s..Len(res) : IsBase(res[x]) # b} IN IF stop = {} THEN Len(res) ELSE Min(stop) - 1
RECURSIVE RowsFrom(_, _, _)
RowsFrom(name, res, s) ==
  IF s > Len(res) THEN <<>>
  ELSE LET e == RunEnd(res, s) IN
       <<IF IsBase(res[s]) THEN Frag(name, s, e, 1) ELSE GapRow("scaffold", e - s + 1)>> \o RowsFrom(name, res, e + 1)
DefRows(name, res) == RowsFrom(name, res, 1)

\* IUPAC complement, case preserving; anything else is left alone
CompPairs == <<<<"A", "T">>, <<"C", "G">>, <<"R", "Y">>, <<"M", "K">>, <<"S", "S">>, <<"W", "W">>, <<"H", "D">>, <<"B", "V">>, <<"N", "N">>,
               <<"a", "t">>, <<"c", "g">>, <<"r", "y">>, <<"m", "k">>, <<"s", "s">>, <<"w", "w">>, <<"h", "d">>, <<"b", "v">>, <<"n", "n">>>>
Comp(c) == IF \E i \in 1..Len(CompPairs) : CompPairs[i][1] = c THEN CompPairs[CHOOSE i \in 1..Len(CompPairs) : CompPairs[i][1] = c][2]
           ELSE IF \E i \in 1..Len(CompPairs) : CompPairs[i][2] = c THEN CompPairs[CHOOSE i \in 1..Len(CompPairs) : CompPairs[i][2] = c][1]
           ELSE c
RevComp(s) == [i \in 1..Len(s) |-> Comp(s[Len(s) + 1 - i])]
Ns(n) == [i \in 1..n |-> "N"]

\* the residues an assembly row stands for (recs: name -> residues)
RecOf(f, name) == f[CHOOSE k \in 1..Len(f) : f[k].name = name]
RowSeq(f, r) == IF IsGap(r) THEN Ns(RowLen(r))
                ELSE LET x == SubSeq(RecOf(f, r.name).res, r.s, r.e) IN IF r.st = -1 THEN RevComp(x) ELSE x
Expected(f, rows) == FoldLeft(LAMBDA acc, r : acc \o RowSeq(f, r), <<>>, rows)
\* the same with another gap character (FastaStream's gap_character argument)
ExpectedG(f, rows, g) == FoldLeft(LAMBDA acc, r : acc \o (IF IsGap(r) THEN [i \in 1..RowLen(r) |-> g] ELSE RowSeq(f, r)), <<>>, rows)
\* wrap a residue sequence into lines of length L (last line shorter, never empty)
Wrap(s, L) == [i \in 1..((Len(s) + L - 1) \div L) |-> SubSeq(s, (i - 1) * L + 1, MinI(i * L, Len(s)))]

\* ------------------------------------------------------------------ Part 2: the indexer, as the code performs it
\* the lines of record k as (payload, has terminator)
LineOf(f, fnl, k, i) == LET r == f[k]  s == (i - 1) * r.w + 1  e == MinI(i * r.w, Len(r.res))
                        IN [pay |-> SubSeq(r.res, s, e), term |-> ~(k = Len(f) /\ i = NLines(r) /\ ~fnl)]
\* what the code appends to its buffer for one line
Strip(r, ln) == IF Fixed \/ ln.term THEN ln.pay ELSE SubSeq(ln.pay, 1, MaxI(Len(ln.pay) - r.eol, 0))
RplOf(r, ln) == IF Fixed \/ ln.term THEN Len(ln.pay) ELSE Len(ln.pay) - r.eol

\* process_seq_buffer: run detection in one buffer, merging with the region left open by the previous flush
\* st = [regions, rs, re, len]; re = -1 encodes None (re = 0 is "falsy" in the code as well: see RegionOpen)
RegionOpen(st) == st.re > 0
RECURSIVE ScanBuf(_, _, _)
ScanBuf(buf, p, st) ==
  IF p > Len(buf) THEN st
  ELSE IF ~IsBase(buf[p]) THEN ScanBuf(buf, p + 1, st)
  ELSE LET stop == {x \in p..Len(buf) : ~IsBase(buf[x])}
           e == IF stop = {} THEN Len(buf) ELSE Min(stop) - 1
           start == st.len + p - 1   end == st.len + e           \* 0-based, half open
           st2 == IF start = st.re THEN [st EXCEPT !.re = end]
                  ELSE [st EXCEPT !.regions = IF RegionOpen(st) THEN Append(st.regions, <<st.rs, st.re>>) ELSE st.regions, !.rs = start, !.re = end]
       IN ScanBuf(buf, e + 1, st2)
FlushBuf(st, buf) == [ScanBuf(buf, 1, st) EXCEPT !.len = st.len + Len(buf)]
\* store_info: rows from the region list
RECURSIVE BuildRows(_, _, _, _, _)
BuildRows(name, regs, j, prev, total) ==
  IF j > Len(regs) THEN (IF total - prev > 0 THEN <<GapRow("scaffold", total - prev)>> ELSE <<>>)
  ELSE (IF regs[j][1] # prev THEN <<GapRow("scaffold", regs[j][1] - prev)>> ELSE <<>>)
       \o <<Frag(name, regs[j][1] + 1, regs[j][2], 1)>> \o BuildRows(name, regs, j + 1, regs[j][2], total)

VARIABLES file, fnl, B, k, i, buf, st, rpl, maxheld, idx, asm, phase
ivars == <<file, fnl, B, k, i, buf, st, rpl, maxheld, idx, asm, phase>>
EmptySt == [regions |-> <<>>, rs |-> 0, re |-> -1, len |-> 0]

Seqs == UNION {[1..n -> Alphabet] : n \in 1..MaxLen}
RecNames == <<"s1", "s2", "s3">>
Files == UNION {{[j \in 1..n |-> [name |-> RecNames[j], hlen |-> 3 + (IF j = 2 THEN 4 ELSE 0), res |-> rs[j], w |-> ws[j], eol |-> el]] :
                    rs \in [1..n -> Seqs], ws \in [1..n -> Widths], el \in {1, 2}} : n \in 1..MaxRecs}
IInit == /\ file \in Files /\ fnl \in BOOLEAN /\ B \in Bufs
         /\ k = 1 /\ i = 0 /\ buf = <<>> /\ st = EmptySt /\ rpl = 0 /\ maxheld = 0 /\ idx = <<>> /\ asm = <<>> /\ phase = "header"
ReadHeader == /\ phase = "header" /\ k <= Len(file)
              /\ phase' = "lines" /\ i' = 1 /\ buf' = <<>> /\ st' = EmptySt /\ rpl' = 0
              /\ UNCHANGED <<file, fnl, B, k, maxheld, idx, asm>>
\* one sequence line: append to the buffer, flush once the buffer exceeds b.  acc = [buf, st, rpl, maxheld]
LineStep(r, acc, ln, b) ==
  LET nb == acc.buf \o Strip(r, ln)  full == Len(nb) > b IN
  [buf |-> IF full THEN <<>> ELSE nb, st |-> IF full THEN FlushBuf(acc.st, nb) ELSE acc.st,
   rpl |-> IF acc.rpl = 0 THEN RplOf(r, ln) ELSE acc.rpl, maxheld |-> MaxI(acc.maxheld, Len(nb))]
ReadSeqLine == /\ phase = "lines" /\ i <= NLines(file[k])
               /\ LET nx == LineStep(file[k], [buf |-> buf, st |-> st, rpl |-> rpl, maxheld |-> maxheld], LineOf(file, fnl, k, i), B)
                  IN buf' = nx.buf /\ st' = nx.st /\ rpl' = nx.rpl /\ maxheld' = nx.maxheld
               /\ i' = i + 1
               /\ UNCHANGED <<file, fnl, B, k, idx, asm, phase>>
StoreInfo == /\ phase = "lines" /\ i > NLines(file[k])
             /\ LET fin == FlushBuf(st, buf)
                    regs == IF RegionOpen(fin) THEN Append(fin.regions, <<fin.rs, fin.re>>) ELSE fin.regions
                IN /\ idx' = Append(idx, [name |-> file[k].name, len |-> fin.len, off |-> Offset(file, fnl, k), rpl |-> rpl, mll |-> rpl + file[k].eol])
                   /\ asm' = Append(asm, BuildRows(file[k].name, regs, 1, 0, fin.len))
             /\ k' = k + 1 /\ phase' = IF k = Len(file) THEN "done" ELSE "header"
             /\ buf' = <<>> /\ UNCHANGED <<file, fnl, B, i, st, rpl, maxheld>>
\* the same machine as a function of (file, record, buffer size): used by the trace judge for conformance
RunRecord(f, nl, j, b) ==
  LET lines == [q \in 1..NLines(f[j]) |-> LineOf(f, nl, j, q)]
      acc == FoldLeft(LAMBDA a, ln : LineStep(f[j], a, ln, b), [buf |-> <<>>, st |-> EmptySt, rpl |-> 0, maxheld |-> 0], lines)
      fin == FlushBuf(acc.st, acc.buf)
      regs == IF RegionOpen(fin) THEN Append(fin.regions, <<fin.rs, fin.re>>) ELSE fin.regions
  IN [idx |-> [name |-> f[j].name, len |-> fin.len, off |-> Offset(f, nl, j), rpl |-> acc.rpl, mll |-> acc.rpl + f[j].eol],
      rows |-> BuildRows(f[j].name, regs, 1, 0, fin.len), maxheld |-> acc.maxheld]
INext == ReadHeader \/ ReadSeqLine \/ StoreInfo
ISpec == IInit /\ [][INext]_ivars

IndexOK == phase = "done" => \A j \in 1..Len(file) : idx[j] = DefIndex(file, fnl, j) /\ asm[j] = DefRows(file[j].name, file[j].res)
MaxW == LET ws == {file[j].w : j \in 1..Len(file)} IN Max(ws)
HeldOK == Len(buf) <= B /\ maxheld <= B + MaxW          \* C13: never more than the buffer plus one input line

\* ------------------------------------------------------------------ Part 3: seek arithmetic of sequence_bytes
\* returns, for the request [s, e], the residue indices whose bytes are read (0 = a terminator byte or beyond the record)
SeekRead(info, n, eolw, s, e) ==
  LET s0 == s - 1  rp == info.rpl  ml == info.mll  leb == ml - rp
      fl == s0 \div rp  ll == (e - 1) \div rp  fo == s0 % rp  lo == e % rp
      ResAt(pos) == LET line == pos \div (rp + eolw)  col == pos % (rp + eolw)  x == line * rp + col + 1
                    IN IF col >= rp \/ x > n THEN 0 ELSE x
      start == fo + ml * fl
  IN IF fl = ll THEN [q \in 1..(e - s0) |-> ResAt(start + q - 1)]
     ELSE LET first == [q \in 1..(rp - fo) |-> ResAt(start + q - 1)]
              p1 == start + (rp - fo) + leb
              lwl == IF lo = 0 THEN ll ELSE ll - 1
              nwhole == lwl - fl
              whole == [q \in 1..(nwhole * rp) |-> ResAt(p1 + ((q - 1) \div rp) * (rp + leb) + ((q - 1) % rp))]
              p2 == p1 + nwhole * (rp + leb)
              lastp == [q \in 1..lo |-> ResAt(p2 + q - 1)]
          IN first \o whole \o lastp
SeekOK == phase = "done" => \A j \in 1..Len(file) : LET n == Len(file[j].res) IN
             \A s \in 1..n : \A e \in s..n : SeekRead(DefIndex(file, fnl, j), n, file[j].eol, s, e) = [q \in 1..(e - s + 1) |-> s + q - 1]

\* ------------------------------------------------------------------ Part 4: chunk iterators and the line-wrap machine
\* forward chunks of [s, e] with buffer b: 1 + (e - s) \div b chunks of at most b residues
FwdChunks(s, e, b) == [c \in 1..(1 + (e - s) \div b) |-> <<s + (c - 1) * b, MinI(e, s + (c - 1) * b + b - 1)>>]
RevChunkOrder(s, e, b) == LET fc == FwdChunks(s, e, b) IN [c \in 1..Len(fc) |-> fc[Len(fc) + 1 - c]]
\* gap chunks: 1 + len \div b chunks, the last one possibly empty
GapChunks(len, b) == [c \in 1..(1 + len \div b) |-> MinI(len, (c - 1) * b + b) - (c - 1) * b]
RowChunks(f, r, b) ==
  IF IsGap(r) THEN [c \in 1..Len(GapChunks(RowLen(r), b)) |-> Ns(GapChunks(RowLen(r), b)[c])]
  ELSE LET res == RecOf(f, r.name).res
           ch == IF r.st = -1 THEN RevChunkOrder(r.s, r.e, b) ELSE FwdChunks(r.s, r.e, b)
       IN [c \in 1..Len(ch) |-> IF r.st = -1 THEN RevComp(SubSeq(res, ch[c][1], ch[c][2])) ELSE SubSeq(res, ch[c][1], ch[c][2])]
AllChunks(f, rows, b) == FoldLeft(LAMBDA acc, r : acc \o RowChunks(f, r, b), <<>>, rows)
\* write_scaffold: `want` residues are still missing from the current line; w = [lines, cur, want]
RECURSIVE FeedChunk(_, _, _)
FeedChunk(w, chunk, L) ==
  IF chunk = <<>> THEN w
  ELSE LET take == MinI(w.want, Len(chunk))
           cur == w.cur \o SubSeq(chunk, 1, take)
           rest == SubSeq(chunk, take + 1, Len(chunk))
       IN IF w.want - take = 0 THEN FeedChunk([lines |-> Append(w.lines, cur), cur |-> <<>>, want |-> L], rest, L)
          ELSE FeedChunk([lines |-> w.lines, cur |-> cur, want |-> w.want - take], rest, L)
StreamLines(f, rows, b, L) ==
  LET w == FoldLeft(LAMBDA acc, ch : FeedChunk(acc, ch, L), [lines |-> <<>>, cur |-> <<>>, want |-> L], AllChunks(f, rows, b))
  IN IF w.want # L THEN Append(w.lines, w.cur) ELSE w.lines
MaxChunk(f, rows, b) == LET ch == AllChunks(f, rows, b) IN IF ch = <<>> THEN 0 ELSE Max({Len(ch[c]) : c \in 1..Len(ch)})
\* design-level law: the chunked, wrapped stream of every small assembly over the indexed file is the wrapped expectation
RowPool(f) == UNION {{Frag(f[j].name, iv[1], iv[2], sg) : iv \in {v \in (1..Len(f[j].res)) \X (1..Len(f[j].res)) : v[1] <= v[2]}, sg \in {1, -1}} : j \in 1..Len(f)}
              \cup {GapRow("scaffold", n) : n \in 1..3}
SmallAsms(f) == {<<r>> : r \in RowPool(f)} \cup {<<r1, r2>> : r1 \in RowPool(f), r2 \in RowPool(f)}
StreamOK == phase = "done" => \A rows \in SmallAsms(file) : \A L \in {1, 2, 3} :
               /\ StreamLines(file, rows, B, L) = Wrap(Expected(file, rows), L)
               /\ MaxChunk(file, rows, B) <= B
====
