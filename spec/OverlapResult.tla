---- MODULE OverlapResult ----
(***************************************************************************************************)
(* C18.  The mutable overlap result as a state machine.                                            *)
(*                                                                                                 *)
(* State  o = [start, end, rows]  over a fixed source scaffold `src` and bait [a, b].              *)
(* Operations mirror the four mutators of the code one to one (DiscardStart, DiscardEnd,           *)
(* TrimLarge(e), TrimFragment(side, keepStart, keepEnd)); an operation is `ok` exactly where the   *)
(* Python call returns normally ("operations the object accepts").                                 *)
(*                                                                                                 *)
(* The property predicates (SpanIsRows, ContiguousRun, NoTerminalGap, Derived) are written from    *)
(* the statement of C18, independently of the operations.                                          *)
(***************************************************************************************************)
EXTENDS Rows, TLC

\* ------------------------------------------------------------------ the lookup (definition level)
Lookup(src, a, b) ==
  LET hit == {i \in FragIdx(src) : REnd(src, i) >= a /\ RStart(src, i) <= b}
  IN IF hit = {} THEN [none |-> TRUE]
     ELSE [none |-> FALSE, o |-> [start |-> RStart(src, Min(hit)), end |-> REnd(src, Max(hit)),
                                 rows |-> SubSeq(src, Min(hit), Max(hit))]]

\* ------------------------------------------------------------------ derived figures (definition level)
HasRows(o) == o.rows # <<>>
First(o) == o.rows[1]
LastR(o) == o.rows[Len(o.rows)]
Length(o) == o.end - o.start + 1
StartOverhang(o, a) == a - o.start
EndOverhang(o, b) == o.end - b
StartRowBaitOverlap(o, a, b) == Common(a, b, o.start, o.start + RowLen(First(o)) - 1)
EndRowBaitOverlap(o, a, b) == Common(a, b, o.end - RowLen(LastR(o)) + 1, o.end)
OverhangIfStartRemoved(o, a) == a - (o.start + RowLen(First(o)) + GapRunAfterFirst(o.rows))
OverhangIfEndRemoved(o, b) == (o.end - RowLen(LastR(o)) - GapRunBeforeLast(o.rows)) - b

\* ------------------------------------------------------------------ the operations (implementation shaped)
RECURSIVE StripL(_), StripR(_)
StripL(o) == IF HasRows(o) /\ IsGap(First(o)) THEN StripL([o EXCEPT !.rows = Tail(@), !.start = @ + RowLen(First(o))]) ELSE o
StripR(o) == IF HasRows(o) /\ IsGap(LastR(o)) THEN StripR([o EXCEPT !.rows = Front(@), !.end = @ - RowLen(LastR(o))]) ELSE o

Rej == [ok |-> FALSE]
Acc(o) == [ok |-> TRUE, o |-> o]

DiscardStart(o) == IF ~HasRows(o) THEN Rej
                   ELSE Acc(StripL([o EXCEPT !.rows = Tail(@), !.start = @ + RowLen(First(o))]))
DiscardEnd(o) == IF ~HasRows(o) THEN Rej
                 ELSE Acc(StripR([o EXCEPT !.rows = Front(@), !.end = @ - RowLen(LastR(o))]))

TrimLarge(o, a, b, e) ==
  IF ~HasRows(o) THEN (IF StartOverhang(o, a) > e \/ EndOverhang(o, b) > e THEN Rej ELSE Acc(o))   \* rows[0] raises IndexError
  ELSE IF Len(o.rows) = 1 /\ (b - a + 1) > e THEN Acc(o)
  ELSE LET o1 == IF StartOverhang(o, a) > e /\ StartRowBaitOverlap(o, a, b) < e THEN DiscardStart(o).o ELSE o
       IN IF ~HasRows(o1) THEN Acc(o1)
          ELSE IF EndOverhang(o1, b) > e /\ EndRowBaitOverlap(o1, a, b) < e THEN DiscardEnd(o1) ELSE Acc(o1)

\* side = "first" | "last": which terminal row object is passed in; with a single row it is both ends
TrimFragment(o, a, b, side, keepS, keepE) ==
  IF ~HasRows(o) THEN Rej
  ELSE LET n == Len(o.rows)
           f == IF side = "first" THEN First(o) ELSE LastR(o)
           atS == side = "first" \/ n = 1
           atE == side = "last" \/ n = 1
           sov == StartOverhang(o, a)   doS == atS /\ sov > 0 /\ ~keepS
           s1 == IF doS /\ f.st = 1 THEN f.s + sov ELSE f.s
           e1 == IF doS /\ f.st # 1 THEN f.e - sov ELSE f.e
           eov == EndOverhang(o, b)     doE == atE /\ eov > 0 /\ ~keepE
           s2 == IF doE /\ f.st # 1 THEN s1 + eov ELSE s1
           e2 == IF doE /\ f.st = 1 THEN e1 - eov ELSE e1
       IN IF IsGap(f) \/ s2 > e2 THEN Rej
          ELSE Acc([start |-> IF doS THEN o.start + sov ELSE o.start,
                    end |-> IF doE THEN o.end - eov ELSE o.end,
                    rows |-> [o.rows EXCEPT ![IF atE THEN n ELSE 1] = [f EXCEPT !.s = s2, !.e = e2]]])

\* an operation as data: [n |-> "DS"|"DE"|"TL"|"TF", e, side, ks, ke]
Apply(o, a, b, op) ==
  CASE op.n = "DS" -> DiscardStart(o)
    [] op.n = "DE" -> DiscardEnd(o)
    [] op.n = "TL" -> TrimLarge(o, a, b, op.e)
    [] op.n = "TF" -> TrimFragment(o, a, b, op.side, op.ks, op.ke)

\* ------------------------------------------------------------------ property predicates (C18)
SpanIsRows(o) == o.end - o.start + 1 = SumLen(o.rows)
NoTerminalGap(o) == HasRows(o) => IsFrag(First(o)) /\ IsFrag(LastR(o))
\* r is q, possibly shortened; cut on the scaffold-left / scaffold-right side of the row
SubRow(r, q) == r.k = q.k /\ r.name = q.name /\ r.st = q.st /\ q.s <= r.s /\ r.e <= q.e /\ r.s <= r.e
\* cut on the scaffold-left / scaffold-right side of the row, for a fragment read in orientation m (1 forward, -1 reverse)
CutLeftM(r, q, m) == IF m = -1 THEN q.e - r.e ELSE r.s - q.s
CutRightM(r, q, m) == IF m = -1 THEN r.s - q.s ELSE q.e - r.e
\* orientations a row may be read in: its strand; a fragment of unknown strand (0) may have been shortened at either end
Orients(r) == IF r.st = 0 THEN {1, -1} ELSE {r.st}
ContiguousRun(o, src) ==
  ~HasRows(o) \/
  \E lo \in 1..Len(src) :
     LET n == Len(o.rows)  hi == lo + n - 1 IN
     /\ hi <= Len(src)
     /\ \A i \in 2..(n - 1) : o.rows[i] = src[lo + i - 1]
     /\ SubRow(o.rows[1], src[lo]) /\ SubRow(o.rows[n], src[hi])
     /\ \E m1 \in Orients(o.rows[1]), m2 \in Orients(o.rows[n]) :
          /\ (n = 1 => m1 = m2)
          /\ (n > 1 => CutRightM(o.rows[1], src[lo], m1) = 0 /\ CutLeftM(o.rows[n], src[hi], m2) = 0)
          /\ o.start = RStart(src, lo) + CutLeftM(o.rows[1], src[lo], m1)
          /\ o.end = REnd(src, hi) - CutRightM(o.rows[n], src[hi], m2)
\* the figures reported by the object (record d) equal plain interval arithmetic on (span, rows, bait)
Derived(o, a, b, d) ==
  /\ d.len = Length(o) /\ d.so = StartOverhang(o, a) /\ d.eo = EndOverhang(o, b)
  /\ HasRows(o) => /\ d.srbo = StartRowBaitOverlap(o, a, b) /\ d.erbo = EndRowBaitOverlap(o, a, b)
                   /\ d.ois = OverhangIfStartRemoved(o, a) /\ d.oie = OverhangIfEndRemoved(o, b)
Figures(o, a, b) ==
  IF HasRows(o) THEN [len |-> Length(o), so |-> StartOverhang(o, a), eo |-> EndOverhang(o, b), srbo |-> StartRowBaitOverlap(o, a, b),
                      erbo |-> EndRowBaitOverlap(o, a, b), ois |-> OverhangIfStartRemoved(o, a), oie |-> OverhangIfEndRemoved(o, b)]
  ELSE [len |-> Length(o), so |-> StartOverhang(o, a), eo |-> EndOverhang(o, b), srbo |-> 0, erbo |-> 0, ois |-> 0, oie |-> 0]

\* ------------------------------------------------------------------ bounded model (MC_OverlapResult)
CONSTANTS MaxRows, Lens, ErrLens
RowKinds == {"+", "-", "?", "G"}        \* "?" = fragment of unknown strand (0)
Shapes == UNION {[1..n -> RowKinds \X Lens] : n \in 1..MaxRows}
MkRow(kd, len, i) == IF kd = "G" THEN GapRow("scaffold", len)
                     ELSE Frag("c" \o ToString(i), 10 * i + 1, 10 * i + len, IF kd = "+" THEN 1 ELSE IF kd = "-" THEN -1 ELSE 0)
\* no two adjacent gap rows are excluded: the code must cope with them
Sources == {[i \in DOMAIN sh |-> MkRow(sh[i][1], sh[i][2], i)] : sh \in Shapes}
Ops == {[n |-> "DS", e |-> 0, side |-> "", ks |-> FALSE, ke |-> FALSE], [n |-> "DE", e |-> 0, side |-> "", ks |-> FALSE, ke |-> FALSE]}
       \cup {[n |-> "TL", e |-> x, side |-> "", ks |-> FALSE, ke |-> FALSE] : x \in ErrLens}
       \cup {[n |-> "TF", e |-> 0, side |-> sd, ks |-> p, ke |-> q] : sd \in {"first", "last"}, p \in BOOLEAN, q \in BOOLEAN}

VARIABLES src, ba, bb, o, hist
vars == <<src, ba, bb, o, hist>>
Init == /\ src \in Sources
        /\ ba \in 1..(SumLen(src) + 1) /\ bb \in ba..(SumLen(src) + 1)
        /\ ~Lookup(src, ba, bb).none
        /\ o = Lookup(src, ba, bb).o
        /\ hist = <<>>
Step(op) == /\ Apply(o, ba, bb, op).ok
            /\ o' = Apply(o, ba, bb, op).o
            /\ o' # o                      \* no-ops add nothing to the exploration
            /\ hist' = Append(hist, op)
            /\ UNCHANGED <<src, ba, bb>>
Next == \E op \in Ops : Step(op)
Spec == Init /\ [][Next]_vars
View == <<src, ba, bb, o>>

InvSpan == SpanIsRows(o)
InvRun == ContiguousRun(o, src)
InvNoTerminalGap == NoTerminalGap(o)
\* the model's own figures are the definitions, so Derived is trivially true of the model; it is a P-clause of the trace judge
====
