---- MODULE IndexCache ----
(***************************************************************************************************)
(* C15.  The FASTA index cache (<fasta>.fai, <fasta>.agp) as a shared-file protocol.               *)
(*                                                                                                 *)
(* State: a logical clock (Tick is a separate action, so several operations can share one mtime:   *)
(* this models coarse mtime granularity and is what makes "strictly newer" matter); the FASTA      *)
(* [ver, mt]; a file system fs mapping the two public cache names and one private temporary name   *)
(* per process and cache file to Absent or [ex, ver, blocks, mt] - a cache file's content is the   *)
(* set of write units ("blocks") of the index of FASTA version `ver` that have reached the file;   *)
(* complete iff blocks = 1..NB(file).  Every writer keeps its own block offset, so two writers     *)
(* that truncate each other leave holes, as two descriptors on one path really do.                 *)
(*                                                                                                 *)
(* One action per file operation of FastaIndex(...).auto_load(), in the order the code performs    *)
(* them.  Protocol = "inplace": cache files are opened for writing under their public names        *)
(* (the code as found, defect D8).  Protocol = "rename": each file is written under a private      *)
(* temporary name and published with an atomic Replace (the repaired code).                        *)
(*                                                                                                 *)
(* Environment: Tick, Crash(p) at any point (completed writes persist), RewriteFasta (new version, *)
(* mtime = clock, only while no process runs and only if the clock has moved on since the last     *)
(* FASTA write), DeleteFai / DeleteAgp, Start(p).                                                  *)
(***************************************************************************************************)
EXTENDS Naturals, Integers, Sequences, FiniteSets, TLC, Json
CONSTANTS Procs, NBfai, NBagp, MaxClock, MaxVer, Protocol, MaxSwitch, AllowCrash, AllowHistory, MaxStarts, StrictNewer, FlushModes, CrashInWrites
VARIABLES clock, fasta, fs, pc, loc, res, last, switches, starts, hist, flushy
vars == <<clock, fasta, fs, pc, loc, res, last, switches, starts, hist, flushy>>
View == <<clock, fasta, fs, pc, loc, res, last, switches, starts, flushy>>

NB(w) == IF w = "fai" THEN NBfai ELSE NBagp
Absent == [ex |-> FALSE, ver |-> 0, blocks |-> {}, mt |-> 0]
Tmp(p, w) == <<"tmp", w, p>>
Pub(w) == <<"pub", w, "-">>
Names == {Pub(w) : w \in {"fai", "agp"}} \cup {Tmp(p, w) : p \in Procs, w \in {"fai", "agp"}}
NoLoc == [fm |-> 0, cv |-> 0, lf |-> Absent, wb |-> 0]
NoRes == [kind |-> "none", ver |-> 0, fai |-> Absent, agp |-> Absent]
Stopped == {"idle", "done", "error", "crashed"}
Ev(k, x) == <<k, x>>

Init == /\ clock = 1
        /\ fasta = [ver |-> 1, mt |-> 1]
        /\ fs = [n \in Names |-> Absent]
        /\ pc = [p \in Procs |-> "idle"]
        /\ loc = [p \in Procs |-> NoLoc]
        /\ res = [p \in Procs |-> NoRes]
        /\ last = CHOOSE p \in Procs : TRUE
        /\ switches = 0
        /\ starts = 0
        /\ flushy \in FlushModes
        /\ hist = <<Ev("f", IF flushy THEN "1" ELSE "0")>>

Quiet == \A p \in Procs : pc[p] \in Stopped

\* bounded preemption: a context switch is counted when another process steps while the previous one is mid-run
Sched(p) == /\ IF last # p /\ pc[last] \notin Stopped
               THEN switches' = switches + 1 /\ switches < MaxSwitch
               ELSE switches' = switches
            /\ last' = p
Goto(p, l) == pc' = [pc EXCEPT ![p] = l]
Keep == UNCHANGED <<clock, fasta, starts, flushy>>
Log(k, x) == hist' = Append(hist, Ev(k, x))

Start(p) == /\ pc[p] \in Stopped /\ starts < MaxStarts
            /\ starts' = starts + 1
            /\ Goto(p, "ctor")
            /\ loc' = [loc EXCEPT ![p] = NoLoc]
            /\ res' = [res EXCEPT ![p] = NoRes]
            /\ Sched(p) /\ Log("b", p) /\ UNCHANGED <<clock, fasta, fs, flushy>>

\* FastaIndex.__init__: fasta_file.exists()
StatCtor(p) == /\ pc[p] = "ctor" /\ Sched(p) /\ Keep /\ Goto(p, "statFasta") /\ UNCHANGED <<fs, loc, res>>
\* check_for_index_files: fasta_file.stat().st_mtime
StatFasta(p) == /\ pc[p] = "statFasta" /\ Sched(p) /\ Keep
                /\ loc' = [loc EXCEPT ![p].fm = fasta.mt]
                /\ Goto(p, "exFai") /\ UNCHANGED <<fs, res>>
\* idx_file.exists()
Exists(p, here, f, yes, no) ==
    /\ pc[p] = here /\ Sched(p) /\ Keep
    /\ Goto(p, IF fs[Pub(f)].ex THEN yes ELSE no) /\ UNCHANGED <<fs, loc, res>>
\* idx_file.stat().st_mtime > fasta_mtime   (a file that vanished in between raises FileNotFoundError)
Newer(a, b) == IF StrictNewer THEN a > b ELSE a >= b
StatNewer(p, here, f, yes, no) ==
    /\ pc[p] = here /\ Sched(p) /\ Keep
    /\ IF ~fs[Pub(f)].ex THEN Goto(p, "error")
       ELSE Goto(p, IF Newer(fs[Pub(f)].mt, loc[p].fm) THEN yes ELSE no)
    /\ UNCHANGED <<fs, loc, res>>
\* load_index: open + read the whole .fai
ReadFai(p) == /\ pc[p] = "rdFai" /\ Sched(p) /\ Keep
              /\ IF ~fs[Pub("fai")].ex THEN Goto(p, "error") /\ UNCHANGED loc
                 ELSE loc' = [loc EXCEPT ![p].lf = fs[Pub("fai")]] /\ Goto(p, "rdAgp")
              /\ UNCHANGED <<fs, res>>
\* load_assembly: open + parse the whole .agp
ReadAgp(p) == /\ pc[p] = "rdAgp" /\ Sched(p) /\ Keep
              /\ IF ~fs[Pub("agp")].ex THEN Goto(p, "error") /\ UNCHANGED res
                 ELSE /\ res' = [res EXCEPT ![p] = [kind |-> "loaded", ver |-> 0, fai |-> loc[p].lf, agp |-> fs[Pub("agp")]]]
                      /\ Goto(p, "fin")
              /\ UNCHANGED <<fs, loc>>
\* index_fasta_file: open the FASTA and read it to the end
ReadFasta(p) == /\ pc[p] = "index" /\ Sched(p) /\ Keep
                /\ loc' = [loc EXCEPT ![p].cv = fasta.ver]
                /\ Goto(p, "wExFai") /\ UNCHANGED <<fs, res>>

Target(p, w) == IF Protocol = "inplace" THEN Pub(w) ELSE Tmp(p, w)
\* write_index / write_assembly first call exists() to decide on a warning
WarnExists(p, here, next) == /\ pc[p] = here /\ Sched(p) /\ Keep /\ Goto(p, next) /\ UNCHANGED <<fs, loc, res>>
OpenTrunc(p, here, w, next) ==
    /\ pc[p] = here /\ Sched(p) /\ Keep
    /\ fs' = [fs EXCEPT ![Target(p, w)] = [ex |-> TRUE, ver |-> loc[p].cv, blocks |-> {}, mt |-> clock]]
    /\ loc' = [loc EXCEPT ![p].wb = 0]
    /\ Goto(p, next) /\ UNCHANGED res
\* each write call puts the next block at this descriptor's own offset.  flushy = TRUE: every write reaches the file at once (a flush
\* boundary after every write call); flushy = FALSE: written data stays in the process's buffer until close (and is lost by a crash)
WriteBlock(p, here, w, next) ==
    /\ pc[p] = here /\ Sched(p) /\ Keep
    /\ LET t == Target(p, w)  k == loc[p].wb + 1
       IN /\ fs' = IF flushy THEN [fs EXCEPT ![t] = [ex |-> TRUE, ver |-> loc[p].cv, blocks |-> fs[t].blocks \cup {k}, mt |-> clock]] ELSE fs
          /\ loc' = [loc EXCEPT ![p].wb = k]
          /\ Goto(p, IF k = NB(w) THEN next ELSE here)
    /\ UNCHANGED res
CloseW(p, here, w, next) ==
    /\ pc[p] = here /\ Sched(p) /\ Keep
    /\ LET t == Target(p, w) IN
       fs' = IF flushy THEN [fs EXCEPT ![t].mt = IF fs[t].ex THEN clock ELSE @]
             ELSE [fs EXCEPT ![t] = [ex |-> TRUE, ver |-> loc[p].cv, blocks |-> (IF fs[t].ex THEN fs[t].blocks ELSE {}) \cup 1..loc[p].wb, mt |-> clock]]
    /\ Goto(p, next) /\ UNCHANGED <<loc, res>>
Replace(p, here, w, next) ==
    /\ pc[p] = here /\ Sched(p) /\ Keep
    /\ fs' = [fs EXCEPT ![Pub(w)] = fs[Tmp(p, w)], ![Tmp(p, w)] = Absent]
    /\ Goto(p, next) /\ UNCHANGED <<loc, res>>
Finish(p) == /\ pc[p] = "fin" /\ Sched(p) /\ Keep
             /\ res' = [res EXCEPT ![p] = IF @.kind = "loaded" THEN @ ELSE [kind |-> "indexed", ver |-> loc[p].cv, fai |-> Absent, agp |-> Absent]]
             /\ Goto(p, "done") /\ UNCHANGED <<fs, loc>>

AfterClose(w) == IF Protocol = "inplace" THEN (IF w = "fai" THEN "wExAgp" ELSE "fin") ELSE (IF w = "fai" THEN "rFai" ELSE "rAgp")
Step(p) ==
    \/ StatCtor(p)
    \/ StatFasta(p)
    \/ Exists(p, "exFai", "fai", "stFai", "index")
    \/ StatNewer(p, "stFai", "fai", "exAgp", "index")
    \/ Exists(p, "exAgp", "agp", "stAgp", "index")
    \/ StatNewer(p, "stAgp", "agp", "rdFai", "index")
    \/ ReadFai(p) \/ ReadAgp(p) \/ ReadFasta(p)
    \/ WarnExists(p, "wExFai", "oFai")
    \/ OpenTrunc(p, "oFai", "fai", "wFai")
    \/ WriteBlock(p, "wFai", "fai", "cFai")
    \/ CloseW(p, "cFai", "fai", AfterClose("fai"))
    \/ (Protocol # "inplace" /\ Replace(p, "rFai", "fai", "wExAgp"))
    \/ WarnExists(p, "wExAgp", "oAgp")
    \/ OpenTrunc(p, "oAgp", "agp", "wAgp")
    \/ WriteBlock(p, "wAgp", "agp", "cAgp")
    \/ CloseW(p, "cAgp", "agp", AfterClose("agp"))
    \/ (Protocol # "inplace" /\ Replace(p, "rAgp", "agp", "fin"))
    \/ Finish(p)
\* a reader that got an incomplete file may also fail loudly (parse error) instead of finishing
Fail(p) == /\ \/ (pc[p] = "rdAgp" /\ loc[p].lf.blocks # 1..NBfai)
              \/ (pc[p] = "fin" /\ res[p].kind = "loaded" /\ res[p].agp.blocks # 1..NBagp)
           /\ Sched(p) /\ Keep /\ Goto(p, "error") /\ UNCHANGED <<fs, loc, res>>

PStep(p) == (Step(p) \/ Fail(p)) /\ Log("s", p)
\* CrashInWrites = "ends": inside a run of write calls only the first two and the last crash point are explored (quick tier)
CrashPoint(p) == \/ CrashInWrites = "all" \/ pc[p] \notin {"wFai", "wAgp"}
                 \/ loc[p].wb \in {0, 1} \/ loc[p].wb = NB(IF pc[p] = "wFai" THEN "fai" ELSE "agp") - 1
Crash(p) == /\ AllowCrash /\ pc[p] \notin Stopped /\ CrashPoint(p)
            /\ Goto(p, "crashed") /\ Log("c", p) /\ UNCHANGED <<clock, fasta, fs, loc, res, last, switches, starts, flushy>>
Tick == /\ clock < MaxClock /\ clock' = clock + 1 /\ Log("t", "")
        /\ UNCHANGED <<fasta, fs, pc, loc, res, last, switches, starts, flushy>>
RewriteFasta == /\ AllowHistory /\ Quiet /\ fasta.ver < MaxVer /\ clock > fasta.mt
                /\ fasta' = [ver |-> fasta.ver + 1, mt |-> clock] /\ Log("r", "")
                /\ UNCHANGED <<clock, fs, pc, loc, res, last, switches, starts, flushy>>
Delete(f) == /\ AllowHistory /\ Quiet /\ fs[Pub(f)].ex
             /\ fs' = [fs EXCEPT ![Pub(f)] = Absent] /\ Log("d", f)
             /\ UNCHANGED <<clock, fasta, pc, loc, res, last, switches, starts, flushy>>

Next == \/ \E p \in Procs : Start(p) \/ PStep(p) \/ Crash(p)
        \/ Tick \/ RewriteFasta \/ Delete("fai") \/ Delete("agp")
Spec == Init /\ [][Next]_vars

Complete(f, w) == f.ex /\ f.blocks = 1..NB(w)
\* C15: a completed auto_load holds exactly the index and assembly of the FASTA's current content
ResultOK(r, ver) == IF r.kind = "loaded"
                    THEN Complete(r.fai, "fai") /\ r.fai.ver = ver /\ Complete(r.agp, "agp") /\ r.agp.ver = ver
                    ELSE r.ver = ver
CacheSafe == [][\A p \in Procs : (pc[p] # "done" /\ pc'[p] = "done") => ResultOK(res'[p], fasta.ver)]_vars
\* missing / not strictly newer cache files are rebuilt, both together: a run that was alone from start to finish and
\* had to rebuild leaves both public files complete and current
RebuildBoth == [][\A p \in Procs : (pc[p] = "fin" /\ pc'[p] = "done" /\ res'[p].kind = "indexed" /\ switches = 0 /\ ~AllowCrash /\ Cardinality(Procs) = 1)
                    => Complete(fs[Pub("fai")], "fai") /\ fs[Pub("fai")].ver = fasta.ver /\ Complete(fs[Pub("agp")], "agp") /\ fs[Pub("agp")].ver = fasta.ver]_vars
\* the temporary files never become visible under a public name before they are complete (rename protocol)
PublishedComplete == Protocol = "rename" => \A w \in {"fai", "agp"} : fs[Pub(w)].ex => Complete(fs[Pub(w)], w)

\* behaviour export (VIEW hides hist): one shortest schedule per distinct quiet state, and - because a race shows at the
\* moment one process finishes while others are mid-run - per distinct state in which a process has just finished
JustFinished == \E p \in Procs : pc[p] \in {"done", "error"} /\ last = p /\ ~Quiet
\* priority for sampling: a run that LOADED the cache although an earlier run crashed or the FASTA was rewritten is where staleness shows
Risky == /\ \E p \in Procs : pc[p] = "done" /\ res[p].kind = "loaded"
         /\ \/ \E q \in 1..Len(hist) : hist[q][1] \in {"c", "r"}
            \/ switches > 0                                              \* ... or after / while another process was writing
Emit == ((Quiet /\ starts > 0) \/ JustFinished) => PrintT(ToJson([h |-> hist, pri |-> IF Risky THEN 1 ELSE 0]))
====
