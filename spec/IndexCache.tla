---- MODULE IndexCache ----
(***************************************************************************************************)
(* C15.  The FASTA index cache (<fasta>.fai, <fasta>.agp) as a shared-file protocol.               *)
(*                                                                                                 *)
(* State: a logical clock (Tick is a separate action, so several operations can share one mtime:   *)
(* this models coarse mtime granularity and is what makes "strictly newer" matter); the FASTA      *)
(* [ver, mt]; a file system fs mapping the two public cache names and one private temporary name   *)
(* per process and cache file to Absent or [ex, ver, blocks, mt] - a cache file's content is the   *)
(* set of write units ("blocks") of the index of FASTA version `ver` that have reached the file;   *)
(* complete iff blocks = 1..NB(file).  Every writer keeps its own block offset, so two writers     *)
(* that truncate each other leave holes, as two descriptors on one path really do.                 *)
(*                                                                                                 *)
(* One action per file operation of FastaIndex(...).auto_load(), in the order the code performs    *)
(* them.  Protocol = "inplace": cache files are opened for writing under their public names        *)
(* (the code as found, defect D8).  Protocol = "rename": each file is written under a private      *)
(* temporary name and published with an atomic Replace (the repaired code).                        *)
(*                                                                                                 *)
(* Environment: Tick, Crash(p) at any point (completed writes persist), RewriteFasta (new version, *)
(* mtime = clock, only while no process runs and only if the clock has moved on since the last     *)
(* FASTA write), DeleteFai / DeleteAgp, Start(p).                                                  *)
(***************************************************************************************************)
EXTENDS Naturals, Integers, Sequences, FiniteSets, TLC, Json
CONSTANTS Procs, NBfai, NBagp, MaxClock, MaxVer, Protocol, MaxSwitch, AllowCrash, AllowHistory, MaxStarts, StrictNewer
VARIABLES clock, fasta, fs, pc, loc, res, last, switches, starts, hist
vars == <<clock, fasta, fs, pc, loc, res, last, switches, starts, hist>>
View == <<clock, fasta, fs, pc, loc, res, last, switches, starts>>

NB(w) == IF w = "fai" THEN NBfai ELSE NBagp
Absent == [ex |-> FALSE, ver |-> 0, blocks |-> {}, mt |-> 0]
Tmp(p, w) == <<"tmp", w, p>>
Pub(w) == <<"pub", w, "-">>
Names == {Pub(w) : w \in {"fai", "agp"}} \cup {Tmp(p, w) : p \in Procs, w \in {"fai", "agp"}}
NoLoc == [fm |-> 0, cv |-> 0, lf |-> Absent, wb |-> 0]
NoRes == [kind |-> "none", ver |-> 0, fai |-> Absent, agp |-> Absent]
Stopped == {"idle", "done", "error", "crashed"}
Ev(k, x) == <<k, x>>

Init == /\ clock = 1
        /\ fasta = [ver |-> 1, mt |-> 1]
        /\ fs = [n \in Names |-> Absent]
        /\ pc = [p \in Procs |-> "idle"]
        /\ loc = [p \in Procs |-> NoLoc]
        /\ res = [p \in Procs |-> NoRes]
        /\ last = CHOOSE p \in Procs : TRUE
        /\ switches = 0
        /\ starts = 0
        /\ hist = <<>>

Quiet == \A p \in Procs : pc[p] \in Stopped

\* bounded preemption: a context switch is counted when another process steps while the previous one is mid-run
Sched(p) == /\ IF last # p /\ pc[last] \notin Stopped
               THEN switches' = switches + 1 /\ switches < MaxSwitch
               ELSE switches' = switches
            /\ last' = p
Goto(p, l) == pc' = [pc EXCEPT ![p] = l]
Keep == UNCHANGED <<clock, fasta, starts>>
Log(k, x) == hist' = Append(hist, Ev(k, x))

Start(p) == /\ pc[p] \in Stopped /\ starts < MaxStarts
            /\ starts' = starts + 1
            /\ Goto(p, "ctor")
            /\ loc' = [loc EXCEPT ![p] = NoLoc]
            /\ res' = [res EXCEPT ![p] = NoRes]
            /\ Sched(p) /\ Log("b", p) /\ UNCHANGED <<clock, fasta, fs>>

\* FastaIndex.__init__: fasta_file.exists()
StatCtor(p) == /\ pc[p] = "ctor" /\ Sched(p) /\ Keep /\ Goto(p, "statFasta") /\ UNCHANGED <<fs, loc, res>>
\* check_for_index_files: fasta_file.stat().st_mtime
StatFasta(p) == /\ pc[p] = "statFasta" /\ Sched(p) /\ Keep
                /\ loc' = [loc EXCEPT ![p].fm = fasta.mt]
                /\ Goto(p, "exFai") /\ UNCHANGED <<fs, res>>
\* idx_file.exists()
Exists(p, here, f, yes, no) ==
    /\ pc[p] = here /\ Sched(p) /\ Keep
    /\ Goto(p, IF fs[Pub(f)].ex THEN yes ELSE no) /\ UNCHANGED <<fs, loc, res>>
\* idx_file.stat().st_mtime > fasta_mtime   (a file that vanished in between raises FileNotFoundError)
Newer(a, b) == IF StrictNewer THEN a > b ELSE a >= b
StatNewer(p, here, f, yes, no) ==
    /\ pc[p] = here /\ Sched(p) /\ Keep
    /\ IF ~fs[Pub(f)].ex THEN Goto(p, "error")
       ELSE Goto(p, IF Newer(fs[Pub(f)].mt, loc[p].fm) THEN yes ELSE no)
    /\ UNCHANGED <<fs, loc, res>>
\* load_index: open + read the whole .fai
ReadFai(p) == /\ pc[p] = "rdFai" /\ Sched(p) /\ Keep
              /\ IF ~fs[Pub("fai")].ex THEN Goto(p, "error") /\ UNCHANGED loc
                 ELSE loc' = [loc EXCEPT ![p].lf = fs[Pub("fai")]] /\ Goto(p, "rdAgp")
              /\ UNCHANGED <<fs, res>>
\* load_assembly: open + parse the whole .agp
ReadAgp(p) == /\ pc[p] = "rdAgp" /\ Sched(p) /\ Keep
              /\ IF ~fs[Pub("agp")].ex THEN Goto(p, "error") /\ UNCHANGED res
                 ELSE /\ res' = [res EXCEPT ![p] = [kind |-> "loaded", ver |-> 0, fai |-> loc[p].lf, agp |-> fs[Pub("agp")]]]
                      /\ Goto(p, "fin")
              /\ UNCHANGED <<fs, loc>>
\* index_fasta_file: open the FASTA and read it to the end
ReadFasta(p) == /\ pc[p] = "index" /\ Sched(p) /\ Keep
                /\ loc' = [loc EXCEPT ![p].cv = fasta.ver]
                /\ Goto(p, "wExFai") /\ UNCHANGED <<fs, res>>

Target(p, w) == IF Protocol = "inplace" THEN Pub(w) ELSE Tmp(p, w)
\* write_index / write_assembly first call exists() to decide on a warning
WarnExists(p, here, next) == /\ pc[p] = here /\ Sched(p) /\ Keep /\ Goto(p, next) /\ UNCHANGED <<fs, loc, res>>
OpenTrunc(p, here, w, next) ==
    /\ pc[p] = here /\ Sched(p) /\ Keep
    /\ fs' = [fs EXCEPT ![Target(p, w)] = [ex |-> TRUE, ver |-> loc[p].cv, blocks |-> {}, mt |-> clock]]
    /\ loc' = [loc EXCEPT ![p].wb = 0]
    /\ Goto(p, next) /\ UNCHANGED res
\* each write call (flush boundary) puts the next block at this descriptor's own offset
WriteBlock(p, here, w, next) ==
    /\ pc[p] = here /\ Sched(p) /\ Keep
    /\ LET t == Target(p, w)  k == loc[p].wb + 1
       IN /\ fs' = [fs EXCEPT ![t] = [ex |-> TRUE, ver |-> loc[p].cv, blocks |-> fs[t].blocks \cup {k}, mt |-> clock]]
          /\ loc' = [loc EXCEPT ![p].wb = k]
          /\ Goto(p, IF k = NB(w) THEN next ELSE here)
    /\ UNCHANGED res
CloseW(p, here, w, next) ==
    /\ pc[p] = here /\ Sched(p) /\ Keep
    /\ fs' = [fs EXCEPT ![Target(p, w)].mt = IF fs[Target(p, w)].ex THEN clock ELSE @]
    /\ Goto(p, next) /\ UNCHANGED <<loc, res>>
Replace(p, here, w, next) ==
    /\ pc[p] = here /\ Sched(p) /\ Keep
    /\ fs' = [fs EXCEPT ![Pub(w)] = fs[Tmp(p, w)], ![Tmp(p, w)] = Absent]
    /\ Goto(p, next) /\ UNCHANGED <<loc, res>>
Finish(p) == /\ pc[p] = "fin" /\ Sched(p) /\ Keep
             /\ res' = [res EXCEPT ![p] = IF @.kind = "loaded" THEN @ ELSE [kind |-> "indexed", ver |-> loc[p].cv, fai |-> Absent, agp |-> Absent]]
             /\ Goto(p, "done") /\ UNCHANGED <<fs, loc>>

AfterClose(w) == IF Protocol = "inplace" THEN (IF w = "fai" THEN "wExAgp" ELSE "fin") ELSE (IF w = "fai" THEN "rFai" ELSE "rAgp")
Step(p) ==
    \/ StatCtor(p)
    \/ StatFasta(p)
    \/ Exists(p, "exFai", "fai", "stFai", "index")
    \/ StatNewer(p, "stFai", "fai", "exAgp", "index")
    \/ Exists(p, "exAgp", "agp", "stAgp", "index")
    \/ StatNewer(p, "stAgp", "agp", "rdFai", "index")
    \/ ReadFai(p) \/ ReadAgp(p) \/ ReadFasta(p)
    \/ WarnExists(p, "wExFai", "oFai")
    \/ OpenTrunc(p, "oFai", "fai", "wFai")
    \/ WriteBlock(p, "wFai", "fai", "cFai")
    \/ CloseW(p, "cFai", "fai", AfterClose("fai"))
    \/ (Protocol # "inplace" /\ Replace(p, "rFai", "fai", "wExAgp"))
    \/ WarnExists(p, "wExAgp", "oAgp")
    \/ OpenTrunc(p, "oAgp", "agp", "wAgp")
    \/ WriteBlock(p, "wAgp", "agp", "cAgp")
    \/ CloseW(p, "cAgp", "agp", AfterClose("agp"))
    \/ (Protocol # "inplace" /\ Replace(p, "rAgp", "agp", "fin"))
    \/ Finish(p)
\* a reader that got an incomplete file may also fail loudly (parse error) instead of finishing
Fail(p) == /\ \/ (pc[p] = "rdAgp" /\ loc[p].lf.blocks # 1..NBfai)
              \/ (pc[p] = "fin" /\ res[p].kind = "loaded" /\ res[p].agp.blocks # 1..NBagp)
           /\ Sched(p) /\ Keep /\ Goto(p, "error") /\ UNCHANGED <<fs, loc, res>>

PStep(p) == (Step(p) \/ Fail(p)) /\ Log("s", p)
Crash(p) == /\ AllowCrash /\ pc[p] \notin Stopped
            /\ Goto(p, "crashed") /\ Log("c", p) /\ UNCHANGED <<clock, fasta, fs, loc, res, last, switches, starts>>
Tick == /\ clock < MaxClock /\ clock' = clock + 1 /\ Log("t", "")
        /\ UNCHANGED <<fasta, fs, pc, loc, res, last, switches, starts>>
RewriteFasta == /\ AllowHistory /\ Quiet /\ fasta.ver < MaxVer /\ clock > fasta.mt
                /\ fasta' = [ver |-> fasta.ver + 1, mt |-> clock] /\ Log("r", "")
                /\ UNCHANGED <<clock, fs, pc, loc, res, last, switches, starts>>
Delete(f) == /\ AllowHistory /\ Quiet /\ fs[Pub(f)].ex
             /\ fs' = [fs EXCEPT ![Pub(f)] = Absent] /\ Log("d", f)
             /\ UNCHANGED <<clock, fasta, pc, loc, res, last, switches, starts>>

Next == \/ \E p \in Procs : Start(p) \/ PStep(p) \/ Crash(p)
        \/ Tick \/ RewriteFasta \/ Delete("fai") \/ Delete("agp")
Spec == Init /\ [][Next]_vars

Complete(f, w) == f.ex /\ f.blocks = 1..NB(w)
\* C15: a completed auto_load holds exactly the index and assembly of the FASTA's current content
ResultOK(r, ver) == IF r.kind = "loaded"
                    THEN Complete(r.fai, "fai") /\ r.fai.ver = ver /\ Complete(r.agp, "agp") /\ r.agp.ver = ver
                    ELSE r.ver = ver
CacheSafe == [][\A p \in Procs : (pc[p] # "done" /\ pc'[p] = "done") => ResultOK(res'[p], fasta.ver)]_vars
\* missing / not strictly newer cache files are rebuilt, both together: a run that was alone from start to finish and
\* had to rebuild leaves both public files complete and current
RebuildBoth == [][\A p \in Procs : (pc[p] = "fin" /\ pc'[p] = "done" /\ res'[p].kind = "indexed" /\ switches = 0 /\ ~AllowCrash /\ Cardinality(Procs) = 1)
                    => Complete(fs[Pub("fai")], "fai") /\ fs[Pub("fai")].ver = fasta.ver /\ Complete(fs[Pub("agp")], "agp") /\ fs[Pub("agp")].ver = fasta.ver]_vars
\* the temporary files never become visible under a public name before they are complete (rename protocol)
PublishedComplete == Protocol = "rename" => \A w \in {"fai", "agp"} : fs[Pub(w)].ex => Complete(fs[Pub(w)], w)

\* behaviour export (VIEW hides hist): one shortest schedule per distinct quiet state, and - because a race shows at the
\* moment one process finishes while others are mid-run - per distinct state in which a process has just finished
JustFinished == \E p \in Procs : pc[p] \in {"done", "error"} /\ last = p /\ ~Quiet
Emit == ((Quiet /\ starts > 0) \/ JustFinished) => PrintT(ToJson(hist))
====
