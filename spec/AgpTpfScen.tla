---- MODULE AgpTpfScen ----
(* Scenario export for C05: the bounded universe of abstract assemblies (AgpTpf!Universe). *)
EXTENDS AgpTpf, Json
Emit == PrintT(ToJson(asm))
\* the writer model obeys C06 on the whole universe (design level): lines of FormatAGP projected back to integers
ModelLines(a) == FoldLeft(LAMBDA acc, sc : acc \o [q \in 1..Len(sc.rows) |->
                    LET r == sc.rows[q]  beg == SumLen(SubSeq(sc.rows, 1, q - 1)) + 1 IN
                    [obj |-> sc.name, beg |-> beg, end |-> beg + RowLen(r) - 1, part |-> q, typ |-> IF IsGap(r) THEN "U" ELSE "W",
                     glen |-> IF IsGap(r) THEN RowLen(r) ELSE 0, gtype |-> IF IsGap(r) THEN r.name ELSE "", linkage |-> IF IsGap(r) THEN "yes" ELSE "",
                     cs |-> r.s, ce |-> r.e]], <<>>, a.scaffolds)
DistinctNames(a) == \A s1, s2 \in 1..Len(a.scaffolds) : s1 # s2 => a.scaffolds[s1].name # a.scaffolds[s2].name

ModelAgpValid == DistinctNames(asm) => AgpValid(ModelLines(asm))
====
