---- MODULE RemapMC ----
(***************************************************************************************************)
(* Design-level model check of the remapper: for every map PretextView.tla reaches, the output of  *)
(* the implementation-shaped pipeline model (Remap!Pipeline) is judged by the property predicates  *)
(* of RemapProps.tla.  This says the DESIGN (as modelled, with the repairs of D4 and D5) satisfies *)
(* C01, C02, C07 and the cut count of C11 inside the bounds; RemapTrace.tla says the code follows  *)
(* the model (M-clause "pipeline") and, independently, that the code's own outputs satisfy the     *)
(* same predicates (the verdicts).                                                                 *)
(***************************************************************************************************)
EXTENDS PretextView, Remap, RemapProps
ModelT == LET sc == Scenario  p == Pipeline(sc.input, sc.map, ErrLen, TRUE, TRUE) IN
          [tn |-> TN, td |-> TD, valid |-> sc.valid, input |-> sc.input, map |-> sc.map,
           status |-> IF p.ok THEN "ok" ELSE "exc:ValueError",
           out |-> [q \in 1..Len(p.fused) |-> [asm |-> "", rows |-> p.fused[q].rows]],
           stats |-> [cuts |-> p.cuts]]
NoGhost == \A g \in 1..Len(map) : \A p \in 1..Len(map[g].pieces) : ~map[g].pieces[p].ghost
CheckAll(T) ==
  /\ Conservation(T)
  /\ T.valid = 1 => /\ Completes(T) /\ CoreRunCollinear(T) /\ PretextOrder(T) /\ DeepCutExact(T)
                    /\ GapProvenance(T) /\ NonNeighboursUseJoinGap(T)
  /\ DirectAdjOnlyIfInput(T) /\ NoTerminalGaps(T)
  /\ Ok(T) => T.stats.cuts = CutsDef(T)
ModelSatisfiesProperties == NoGhost => CheckAll(ModelT)
====
