---- MODULE ClobberTrace ----
(***************************************************************************************************)
(* Trace validation for C16.  One trace = one real run of the pretext-to-asm CLI in a directory    *)
(* where the subset `pre` of its output files already existed (filled with junk longer than any    *)
(* real output):  [tid, cfg, outputs |-> <<name>> (in the order the reference run created them),   *)
(* pre |-> <<index>>, clobber, exit, named |-> <<index>> (outputs whose path appears in the error  *)
(* output), unchanged |-> <<index>> (pre-existing files byte-identical afterwards),                *)
(* asref |-> <<index>> (files whose content equals the reference run into an empty directory),     *)
(* extra |-> number of files present afterwards that are neither outputs nor pre-existing]         *)
(***************************************************************************************************)
EXTENDS Clobber, Json, IOUtils, TLCExt
Traces == JsonDeserialize(IOEnv.TRACE_FILE)
ASSUME TLCSet(1, 0)
VARIABLE tn
Say(T, kind, clause, detail) == PrintT(<<kind, T.tid, clause, detail>>)
SetOf(sq) == {sq[q] : q \in 1..Len(sq)}
Judge(T) ==
  LET P == SetOf(T.pre)  n == Len(T.outputs)  cls == T.cfg \o (IF T.clobber = 1 THEN "/clobber" ELSE "/no-clobber") IN
  /\ TLCSet(1, TLCGet(1) + 1)
  /\ IF T.clobber = 0 /\ P # {}
     THEN /\ (T.exit # 0 \/ Say(T, "V", "C16.no_clobber_fails", cls))
          /\ (SetOf(T.named) \cap P # {} \/ Say(T, "V", "C16.error_names_colliding_file", cls))
          /\ (P \subseteq SetOf(T.unchanged) \/ Say(T, "V", "C16.existing_files_untouched", cls))
          /\ ((T.exit = 1 /\ SetOf(T.named) \cap P = {CHOOSE f \in P : \A g \in P : f <= g}) \/ Say(T, "M", "first_in_write_order_is_named", cls))
     ELSE /\ (T.exit = 0 \/ Say(T, "V", "C16.clobber_succeeds", cls))
          /\ (SetOf(T.asref) = 1..n \/ Say(T, "V", "C16.clobber_rewrites_completely", cls))
TInit == tn = 0 /\ pre = {} /\ clobber = FALSE /\ fs = <<>> /\ k = 0 /\ exit = 0 /\ named = 0
TNext == tn < Len(Traces) /\ tn' = tn + 1 /\ Judge(Traces[tn + 1]) = TRUE /\ UNCHANGED vars
TraceSpec == TInit /\ [][TNext]_<<tn, vars>>
Post == PrintT(<<"JUDGED", TLCGet(1)>>)
====
