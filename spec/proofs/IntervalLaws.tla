---- MODULE IntervalLaws ----
(* Unbounded proofs (TLAPS) of the laws of the interval definitions used by C19: for ALL integer intervals, not only those of the bounded TLC universe. *)
EXTENDS Integers, TLAPS
MaxI(a, b) == IF a > b THEN a ELSE b
MinI(a, b) == IF a < b THEN a ELSE b
Shares(s1, e1, s2, e2) == e1 >= s2 /\ s1 <= e2
OvLen(s1, e1, s2, e2) == IF Shares(s1, e1, s2, e2) THEN MinI(e1, e2) - MaxI(s1, s2) + 1 ELSE 0
GapB(s1, e1, s2, e2) == IF ~Shares(s1, e1, s2, e2) THEN MaxI(s1, s2) - MinI(e1, e2) - 1 ELSE -1
Abut(s1, e1, s2, e2) == GapB(s1, e1, s2, e2) = 0

THEOREM Symmetric == \A s1, e1, s2, e2 \in Int : /\ Shares(s1, e1, s2, e2) = Shares(s2, e2, s1, e1)
                                               /\ OvLen(s1, e1, s2, e2) = OvLen(s2, e2, s1, e1)
                                               /\ GapB(s1, e1, s2, e2) = GapB(s2, e2, s1, e1)
  BY DEF Shares, OvLen, GapB, MaxI, MinI

THEOREM Trichotomy == \A s1, e1, s2, e2 \in Int : (s1 <= e1 /\ s2 <= e2) =>
     \/ (Shares(s1, e1, s2, e2) /\ ~Abut(s1, e1, s2, e2) /\ ~(GapB(s1, e1, s2, e2) > 0))
     \/ (~Shares(s1, e1, s2, e2) /\ Abut(s1, e1, s2, e2) /\ ~(GapB(s1, e1, s2, e2) > 0))
     \/ (~Shares(s1, e1, s2, e2) /\ ~Abut(s1, e1, s2, e2) /\ GapB(s1, e1, s2, e2) > 0)
  BY DEF Shares, Abut, GapB, MaxI, MinI

THEOREM OverlapPositive == \A s1, e1, s2, e2 \in Int : (s1 <= e1 /\ s2 <= e2 /\ Shares(s1, e1, s2, e2)) => OvLen(s1, e1, s2, e2) >= 1
  BY DEF Shares, OvLen, MaxI, MinI
====
