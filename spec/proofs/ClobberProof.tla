---- MODULE ClobberProof ----
(* TLAPS proof, for EVERY number N of output files, that the ordered exclusive-create protocol of Clobber.tla never touches a       *)
(* pre-existing file and fails naming one of them (NoClobberSafe), and that a run which finishes with exit 0 found none (design level). *)
EXTENDS Clobber, TLAPS
ASSUME NAssump == N \in Nat /\ MaxPre \in Nat

TypeOK == /\ pre \in SUBSET (1..N) /\ clobber \in BOOLEAN
          /\ fs \in [1..N -> {"absent", "old", "new"}]
          /\ k \in 1..(N + 1) /\ exit \in {-1, 0, 1} /\ named \in 0..N
Inv == /\ TypeOK
       /\ ~clobber => /\ \A f \in pre : fs[f] = "old"
                      /\ exit = -1 => \A f \in k..N : fs[f] = IF f \in pre THEN "old" ELSE "absent"
                      /\ exit = -1 => \A f \in pre : f >= k
                      /\ exit = 1 => named \in pre
                      /\ exit = 0 => pre = {}

LEMMA InitInv == Init => Inv
  BY NAssump DEF Init, Inv, TypeOK

LEMMA NextInv == Inv /\ [Next]_vars => Inv'
<1> SUFFICES ASSUME Inv, [Next]_vars PROVE Inv'
  OBVIOUS
<1>1. CASE OpenNext
  <2>1. CASE ~clobber /\ fs[k] # "absent"
    BY <1>1, <2>1, NAssump DEF OpenNext, Inv, TypeOK
  <2>2. CASE ~(~clobber /\ fs[k] # "absent")
    BY <1>1, <2>2, NAssump DEF OpenNext, Inv, TypeOK
  <2> QED BY <2>1, <2>2
<1>2. CASE Finish
  BY <1>2, NAssump DEF Finish, Inv, TypeOK
<1>3. CASE UNCHANGED vars
  BY <1>3 DEF vars, Inv, TypeOK
<1> QED BY <1>1, <1>2, <1>3 DEF Next

THEOREM Safe == Spec => [](NoClobberSafe)
<1>1. Inv => NoClobberSafe
  BY DEF Inv, NoClobberSafe, TypeOK
<1>2. Spec => []Inv
  BY InitInv, NextInv, PTL DEF Spec
<1> QED BY <1>1, <1>2, PTL
====
