---- MODULE IntervalsTrace ----
(***************************************************************************************************)
(* Trace validation for C19.  Two kinds of recorded real executions:                               *)
(*  kind "pair": [x, y, r |-> [ov, ovr, ol, olr, ab, abr, gp, gpr]] - the four Fragment predicates *)
(*     evaluated both ways round on the real objects (None recorded as -1, booleans as 0/1)        *)
(*  kind "asm":  [frs, cut, pairs, cli, clipairs, exc] - Assembly.find_overlapping_fragments on    *)
(*     the real assembly, and (cli = 1) the pairs listed on stderr by asm-format --qc-overlaps     *)
(*  kind "focli": [scaffolds, baits, reports, exc, exit, lines] - the find-overlaps command line   *)
(*     tool on an assembly file and one or two '<name>:<start>-<end>' specifications; reports are  *)
(*     its parsed lines [pos, scaffold, name, s, e, bname, bs, be, ovr]                            *)
(***************************************************************************************************)
EXTENDS Intervals, Json, IOUtils, TLCExt
Traces == JsonDeserialize(IOEnv.TRACE_FILE)
ASSUME TLCSet(1, 0) /\ TLCSet(2, 0) /\ TLCSet(3, 0) /\ TLCSet(4, 0)
VARIABLE k
B(x) == IF x THEN 1 ELSE 0
Say(T, clause, detail) == PrintT(<<"V", T.tid, clause, detail>>)
Rel(x, y) == IF x.name # y.name THEN "other-contig" ELSE IF Shares(x, y) THEN "overlapping" ELSE IF Abut(x, y) THEN "abutting" ELSE "apart"

JudgePair(T) ==
  LET x == T.x  y == T.y  r == T.r  rel == Rel(x, y) IN
  /\ (r.ov = B(Shares(x, y)) \/ Say(T, "C19.overlaps_iff_share_base", rel))
  /\ ((r.ov = r.ovr /\ r.ol = r.olr /\ r.ab = r.abr /\ r.gp = r.gpr) \/ Say(T, "C19.symmetric", rel))
  /\ (r.ol = (IF Shares(x, y) THEN OvLen(x, y) ELSE -1) \/ Say(T, "C19.overlap_length", rel))
  /\ (x.name = y.name => ((r.ab = 1) <=> (r.gp = 0))) \/ Say(T, "C19.abuts_iff_gap_zero", rel)
  /\ (x.name = y.name => (r.ov + r.ab + B(r.gp > 0) = 1)) \/ Say(T, "C19.exactly_one_relation", rel)
  /\ (r.gp = Gap(x, y) /\ r.ab = B(Abut(x, y))) \/ Say(T, "C19.gap_between", rel)
  /\ TLCSet(2, TLCGet(2) + 1)

AsSet(ps) == {<<ps[n][1], ps[n][2]>> : n \in 1..Len(ps)}
JudgeAsm(T) ==
  LET want == OverlapPairs(T.frs)  cls == IF want = {} THEN "no-overlap" ELSE "some-overlap" IN
  /\ (T.exc = "" \/ Say(T, "C19.reported_pairs", "exception"))
  /\ (T.exc # "" \/ (AsSet(T.pairs) = want /\ Len(T.pairs) = Cardinality(want)) \/ Say(T, "C19.reported_pairs", cls))
  /\ (T.cli = 0 \/ (AsSet(T.clipairs) = want /\ Len(T.clipairs) = Cardinality(want)) \/ Say(T, "C19.cli_reports_pairs", cls))
  /\ TLCSet(3, TLCGet(3) + B(want # {}))

\* find-overlaps: one report per (scaffold, fragment row, specification) that share a base, scaffolds in file order, rows in scaffold order,
\* specifications in command-line order; the position label is "only row" / "first row" / "last row" / "row <n>" (n counts gap rows too);
\* the length is the number of shared bases.  Not part of C19's QC: differences are model drift.
PosLabel(rows, q) == IF Len(rows) = 1 THEN "only row" ELSE IF q = 1 THEN "first row" ELSE IF q = Len(rows) THEN "last row" ELSE "row " \o ToString(q)
FoExpected(T) ==
  LET perRow(sc, q) == LET r == sc.rows[q] IN
        IF r.k # "F" THEN <<>>
        ELSE LET hits == SelectSeq([b \in 1..Len(T.baits) |-> b], LAMBDA b : Shares(T.baits[b], r)) IN
             [h \in 1..Len(hits) |-> [pos |-> PosLabel(sc.rows, q), scaffold |-> sc.name, name |-> r.name, s |-> r.s, e |-> r.e,
                                        bname |-> T.baits[hits[h]].name, bs |-> T.baits[hits[h]].s, be |-> T.baits[hits[h]].e, ovr |-> OvLen(T.baits[hits[h]], r)]]
      perSc(sc) == LET Acc[q \in 0..Len(sc.rows)] == IF q = 0 THEN <<>> ELSE Acc[q - 1] \o perRow(sc, q) IN Acc[Len(sc.rows)]
      All[n \in 0..Len(T.scaffolds)] == IF n = 0 THEN <<>> ELSE All[n - 1] \o perSc(T.scaffolds[n])
  IN All[Len(T.scaffolds)]
JudgeFo(T) ==
  /\ ((T.exc = "" /\ T.exit = 0) \/ PrintT(<<"M", T.tid, "find_overlaps_cli", "fails/" \o T.exc>>))
  /\ (T.exc # "" \/ T.exit # 0 \/ (T.reports = FoExpected(T) /\ T.lines = Len(T.reports)) \/ PrintT(<<"M", T.tid, "find_overlaps_cli", T.fmt>>))
  /\ TLCSet(4, TLCGet(4) + Len(T.reports))
Judge(T) == TLCSet(1, TLCGet(1) + 1) /\ (IF T.kind = "pair" THEN JudgePair(T) ELSE IF T.kind = "focli" THEN JudgeFo(T) ELSE JudgeAsm(T))
TInit == k = 0 /\ frs = <<>> /\ cut = 0 /\ i = 0 /\ j = 0 /\ found = <<>> /\ pc = "x"
TNext == k < Len(Traces) /\ k' = k + 1 /\ Judge(Traces[k + 1]) = TRUE /\ UNCHANGED vars
TraceSpec == TInit /\ [][TNext]_<<k, vars>>
Post == PrintT(<<"JUDGED", TLCGet(1)>>) /\ PrintT(<<"N", "pairs", TLCGet(2)>>) /\ PrintT(<<"N", "asm_with_overlap", TLCGet(3)>>)
        /\ PrintT(<<"N", "find_overlaps_reports", TLCGet(4)>>)
====
