---- MODULE IntervalsTrace ----
(***************************************************************************************************)
(* Trace validation for C19.  Two kinds of recorded real executions:                               *)
(*  kind "pair": [x, y, r |-> [ov, ovr, ol, olr, ab, abr, gp, gpr]] - the four Fragment predicates *)
(*     evaluated both ways round on the real objects (None recorded as -1, booleans as 0/1)        *)
(*  kind "asm":  [frs, cut, pairs, cli, clipairs, exc] - Assembly.find_overlapping_fragments on    *)
(*     the real assembly, and (cli = 1) the pairs listed on stderr by asm-format --qc-overlaps     *)
(***************************************************************************************************)
EXTENDS Intervals, Json, IOUtils, TLCExt
Traces == JsonDeserialize(IOEnv.TRACE_FILE)
ASSUME TLCSet(1, 0) /\ TLCSet(2, 0) /\ TLCSet(3, 0)
VARIABLE k
B(x) == IF x THEN 1 ELSE 0
Say(T, clause, detail) == PrintT(<<"V", T.tid, clause, detail>>)
Rel(x, y) == IF x.name # y.name THEN "other-contig" ELSE IF Shares(x, y) THEN "overlapping" ELSE IF Abut(x, y) THEN "abutting" ELSE "apart"

JudgePair(T) ==
  LET x == T.x  y == T.y  r == T.r  rel == Rel(x, y) IN
  /\ (r.ov = B(Shares(x, y)) \/ Say(T, "C19.overlaps_iff_share_base", rel))
  /\ ((r.ov = r.ovr /\ r.ol = r.olr /\ r.ab = r.abr /\ r.gp = r.gpr) \/ Say(T, "C19.symmetric", rel))
  /\ (r.ol = (IF Shares(x, y) THEN OvLen(x, y) ELSE -1) \/ Say(T, "C19.overlap_length", rel))
  /\ (x.name = y.name => ((r.ab = 1) <=> (r.gp = 0))) \/ Say(T, "C19.abuts_iff_gap_zero", rel)
  /\ (x.name = y.name => (r.ov + r.ab + B(r.gp > 0) = 1)) \/ Say(T, "C19.exactly_one_relation", rel)
  /\ (r.gp = Gap(x, y) /\ r.ab = B(Abut(x, y))) \/ Say(T, "C19.gap_between", rel)
  /\ TLCSet(2, TLCGet(2) + 1)

AsSet(ps) == {<<ps[n][1], ps[n][2]>> : n \in 1..Len(ps)}
JudgeAsm(T) ==
  LET want == OverlapPairs(T.frs)  cls == IF want = {} THEN "no-overlap" ELSE "some-overlap" IN
  /\ (T.exc = "" \/ Say(T, "C19.reported_pairs", "exception"))
  /\ (T.exc # "" \/ (AsSet(T.pairs) = want /\ Len(T.pairs) = Cardinality(want)) \/ Say(T, "C19.reported_pairs", cls))
  /\ (T.cli = 0 \/ (AsSet(T.clipairs) = want /\ Len(T.clipairs) = Cardinality(want)) \/ Say(T, "C19.cli_reports_pairs", cls))
  /\ TLCSet(3, TLCGet(3) + B(want # {}))

Judge(T) == TLCSet(1, TLCGet(1) + 1) /\ (IF T.kind = "pair" THEN JudgePair(T) ELSE JudgeAsm(T))
TInit == k = 0 /\ frs = <<>> /\ cut = 0 /\ i = 0 /\ j = 0 /\ found = <<>> /\ pc = "x"
TNext == k < Len(Traces) /\ k' = k + 1 /\ Judge(Traces[k + 1]) = TRUE /\ UNCHANGED vars
TraceSpec == TInit /\ [][TNext]_<<k, vars>>
Post == PrintT(<<"JUDGED", TLCGet(1)>>) /\ PrintT(<<"N", "pairs", TLCGet(2)>>) /\ PrintT(<<"N", "asm_with_overlap", TLCGet(3)>>)
====
