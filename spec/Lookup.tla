---- MODULE Lookup ----
(***************************************************************************************************)
(* C12.  IndexedAssembly.find_overlaps: the property-level definition (Brute) and an              *)
(* implementation-shaped PlusCal transcription of the code (binary search for one overlapping row, *)
(* linear extension both ways, stripping of terminal gap rows) with Python's list-index semantics  *)
(* made explicit: reading index >= n raises IndexError, a negative index wraps around.             *)
(*                                                                                                 *)
(* A row is [k, len, idx]: k = "F" (fragment) or "G" (gap), len >= 1, idx = position for           *)
(* fragments (so a returned slice identifies itself) and 0 for gaps (Gap objects are interned).    *)
(* Fixed = TRUE models the repaired gap-strip loops (guard i_ovr <= j_ovr); FALSE the code as it   *)
(* was found (defect D2: walks off the end on a query that touches only a trailing gap).           *)
(***************************************************************************************************)
EXTENDS Naturals, Integers, Sequences, FiniteSets, TLC, FiniteSetsExt
CONSTANTS MaxRows, Lens, Fixed

Kinds == {"F", "G"}
MkRow(k, len, pos) == [k |-> k, len |-> len, idx |-> IF k = "F" THEN pos ELSE 0]
Shapes == UNION {[1..n -> Kinds \X Lens] : n \in 1..MaxRows}
Scaffolds == {[i \in DOMAIN sh |-> MkRow(sh[i][1], sh[i][2], i)] : sh \in Shapes}
Sum(rows, n) == LET s[i \in 0..n] == IF i = 0 THEN 0 ELSE s[i-1] + rows[i].len IN s[n]
Total(rows) == Sum(rows, Len(rows))
RStart(rows, i) == Sum(rows, i-1) + 1
REnd(rows, i) == Sum(rows, i)

\* ---------- property-level definition (C12), written from the statement ----------
Hits(rows, a, b) == {i \in 1..Len(rows) : REnd(rows, i) >= a /\ RStart(rows, i) <= b}
FragHits(rows, a, b) == {i \in Hits(rows, a, b) : rows[i].k = "F"}
None == [none |-> TRUE]
Brute(rows, a, b) ==
  IF FragHits(rows, a, b) = {} THEN None
  ELSE LET lo == Min(FragHits(rows, a, b))  hi == Max(FragHits(rows, a, b))
       IN [none |-> FALSE, lo |-> lo, hi |-> hi, start |-> RStart(rows, lo), end |-> REnd(rows, hi)]

\* the scenario space of the bounded configurations: every scaffold x every query 1 <= a <= b <= len + 2
Queries(rows) == {<<a, b>> \in (1..(Total(rows) + 2)) \X (1..(Total(rows) + 2)) : a <= b}

(* --fair algorithm find_overlaps
variables rows \in Scaffolds, qa \in 1..(Total(rows) + 2), qb \in qa..(Total(rows) + 2),
          n = Len(rows), a = 0, z = n, m = 0, ovr = -1, i = 0, j = 0, iovr = 0, jovr = 0, result = [none |-> TRUE], err = "";
define
  \* Python list indexing on 0-based idx: negative wraps, >= n raises
  PyValid(x) == x < n /\ x >= -n
  PyRow(x) == IF x >= 0 THEN rows[x + 1] ELSE rows[n + x + 1]
  IdxEnd(x) == Sum(rows, x + 1)        \* idx[x], 0-based
end define;
begin
bs: while a < z /\ ovr = -1 do
      m := a + ((z - a) \div 2);
      if IdxEnd(m) < qa then a := m + 1;
      elsif (IF m = 0 THEN 1 ELSE 1 + IdxEnd(m - 1)) > qb then z := m;
      else ovr := m;
      end if;
    end while;
    if ovr = -1 then goto Done; end if;
ini: iovr := ovr; jovr := ovr; i := ovr - 1;
extL: while i >= 0 /\ IdxEnd(i) >= qa do iovr := i; i := i - 1; end while;
      j := ovr + 1;
extR: while j < n /\ (1 + IdxEnd(j - 1)) <= qb do jovr := j; j := j + 1; end while;
stripL: while TRUE do
          if Fixed /\ ~(iovr <= jovr) then goto chk; end if;
   sl2:   if ~PyValid(iovr) then err := "IndexError"; goto Done;
          elsif PyRow(iovr).k = "G" then iovr := iovr + 1;
          else goto stripR; end if;
        end while;
stripR: while TRUE do
          if Fixed /\ ~(iovr <= jovr) then goto chk; end if;
   sr2:   if ~PyValid(jovr) then err := "IndexError"; goto Done;
          elsif PyRow(jovr).k = "G" then jovr := jovr - 1;
          else goto chk; end if;
        end while;
chk: if iovr <= jovr then
       result := [none |-> FALSE, lo |-> iovr + 1, hi |-> jovr + 1,
                  start |-> (IF iovr = 0 THEN 1 ELSE 1 + IdxEnd(iovr - 1)), end |-> IdxEnd(jovr)];
     end if;
end algorithm; *)
\* BEGIN TRANSLATION
VARIABLES pc, rows, qa, qb, n, a, z, m, ovr, i, j, iovr, jovr, result, err

(* define statement *)
PyValid(x) == x < n /\ x >= -n
PyRow(x) == IF x >= 0 THEN rows[x + 1] ELSE rows[n + x + 1]
IdxEnd(x) == Sum(rows, x + 1)


vars == << pc, rows, qa, qb, n, a, z, m, ovr, i, j, iovr, jovr, result, err
        >>

Init == (* Global variables *)
        /\ rows \in Scaffolds
        /\ qa \in 1..(Total(rows) + 2)
        /\ qb \in qa..(Total(rows) + 2)
        /\ n = Len(rows)
        /\ a = 0
        /\ z = n
        /\ m = 0
        /\ ovr = -1
        /\ i = 0
        /\ j = 0
        /\ iovr = 0
        /\ jovr = 0
        /\ result = [none |-> TRUE]
        /\ err = ""
        /\ pc = "bs"

bs == /\ pc = "bs"
      /\ IF a < z /\ ovr = -1
            THEN /\ m' = a + ((z - a) \div 2)
                 /\ IF IdxEnd(m') < qa
                       THEN /\ a' = m' + 1
                            /\ UNCHANGED << z, ovr >>
                       ELSE /\ IF (IF m' = 0 THEN 1 ELSE 1 + IdxEnd(m' - 1)) > qb
                                  THEN /\ z' = m'
                                       /\ ovr' = ovr
                                  ELSE /\ ovr' = m'
                                       /\ z' = z
                            /\ a' = a
                 /\ pc' = "bs"
            ELSE /\ IF ovr = -1
                       THEN /\ pc' = "Done"
                       ELSE /\ pc' = "ini"
                 /\ UNCHANGED << a, z, m, ovr >>
      /\ UNCHANGED << rows, qa, qb, n, i, j, iovr, jovr, result, err >>

ini == /\ pc = "ini"
       /\ iovr' = ovr
       /\ jovr' = ovr
       /\ i' = ovr - 1
       /\ pc' = "extL"
       /\ UNCHANGED << rows, qa, qb, n, a, z, m, ovr, j, result, err >>

extL == /\ pc = "extL"
        /\ IF i >= 0 /\ IdxEnd(i) >= qa
              THEN /\ iovr' = i
                   /\ i' = i - 1
                   /\ pc' = "extL"
                   /\ j' = j
              ELSE /\ j' = ovr + 1
                   /\ pc' = "extR"
                   /\ UNCHANGED << i, iovr >>
        /\ UNCHANGED << rows, qa, qb, n, a, z, m, ovr, jovr, result, err >>

extR == /\ pc = "extR"
        /\ IF j < n /\ (1 + IdxEnd(j - 1)) <= qb
              THEN /\ jovr' = j
                   /\ j' = j + 1
                   /\ pc' = "extR"
              ELSE /\ pc' = "stripL"
                   /\ UNCHANGED << j, jovr >>
        /\ UNCHANGED << rows, qa, qb, n, a, z, m, ovr, i, iovr, result, err >>

stripL == /\ pc = "stripL"
          /\ IF Fixed /\ ~(iovr <= jovr)
                THEN /\ pc' = "chk"
                ELSE /\ pc' = "sl2"
          /\ UNCHANGED << rows, qa, qb, n, a, z, m, ovr, i, j, iovr, jovr, 
                          result, err >>

sl2 == /\ pc = "sl2"
       /\ IF ~PyValid(iovr)
             THEN /\ err' = "IndexError"
                  /\ pc' = "Done"
                  /\ iovr' = iovr
             ELSE /\ IF PyRow(iovr).k = "G"
                        THEN /\ iovr' = iovr + 1
                             /\ pc' = "stripL"
                        ELSE /\ pc' = "stripR"
                             /\ iovr' = iovr
                  /\ err' = err
       /\ UNCHANGED << rows, qa, qb, n, a, z, m, ovr, i, j, jovr, result >>

stripR == /\ pc = "stripR"
          /\ IF Fixed /\ ~(iovr <= jovr)
                THEN /\ pc' = "chk"
                ELSE /\ pc' = "sr2"
          /\ UNCHANGED << rows, qa, qb, n, a, z, m, ovr, i, j, iovr, jovr, 
                          result, err >>

sr2 == /\ pc = "sr2"
       /\ IF ~PyValid(jovr)
             THEN /\ err' = "IndexError"
                  /\ pc' = "Done"
                  /\ jovr' = jovr
             ELSE /\ IF PyRow(jovr).k = "G"
                        THEN /\ jovr' = jovr - 1
                             /\ pc' = "stripR"
                        ELSE /\ pc' = "chk"
                             /\ jovr' = jovr
                  /\ err' = err
       /\ UNCHANGED << rows, qa, qb, n, a, z, m, ovr, i, j, iovr, result >>

chk == /\ pc = "chk"
       /\ IF iovr <= jovr
             THEN /\ result' = [none |-> FALSE, lo |-> iovr + 1, hi |-> jovr + 1,
                                start |-> (IF iovr = 0 THEN 1 ELSE 1 + IdxEnd(iovr - 1)), end |-> IdxEnd(jovr)]
             ELSE /\ TRUE
                  /\ UNCHANGED result
       /\ pc' = "Done"
       /\ UNCHANGED << rows, qa, qb, n, a, z, m, ovr, i, j, iovr, jovr, err >>

(* Allow infinite stuttering to prevent deadlock on termination. *)
Terminating == pc = "Done" /\ UNCHANGED vars

Next == bs \/ ini \/ extL \/ extR \/ stripL \/ sl2 \/ stripR \/ sr2 \/ chk
           \/ Terminating

Spec == /\ Init /\ [][Next]_vars
        /\ WF_vars(Next)

Termination == <>(pc = "Done")

\* END TRANSLATION
Correct == pc = "Done" => (err = "" /\ result = Brute(rows, qa, qb))
Terminates == <>(pc = "Done")
====
