---- MODULE FastaTrace ----
(***************************************************************************************************)
(* Trace validation for the FASTA engine (C03, C04, C13, C14; the AGP texts are judged by C06).    *)
(* Trace kinds (all recorded from the REAL code):                                                  *)
(*  "file"   one FASTA file: indexing under several buffer sizes, random access to every interval, *)
(*           streaming of assemblies (derived assembly, every single row, multi-row assemblies and *)
(*           their reversals) under several buffer sizes and line lengths                          *)
(*  "rev"    Scaffold.reverse() once and twice on one scaffold                                     *)
(*  "table"  the 256-entry complement table; "rc" reverse_complement of a byte string, twice       *)
(*  "mem"    peak traced memory / chunk sizes on inputs hundreds of buffers long                   *)
(*  "reject" duplicate record names / file without records                                         *)
(***************************************************************************************************)
EXTENDS Fasta, Json, IOUtils, TLCExt
Traces == JsonDeserialize(IOEnv.TRACE_FILE)
ASSUME TLCSet(1, 0) /\ TLCSet(2, 0) /\ TLCSet(3, 0) /\ TLCSet(4, 0)
VARIABLE tn
Say(T, kind, clause, detail) == PrintT(<<kind, T.tid, clause, detail>>)
Flat(lines) == FoldLeft(LAMBDA a, x : a \o x, <<>>, lines)
NormN(res) == [q \in 1..Len(res) |-> IF IsBase(res[q]) THEN res[q] ELSE "N"]
FileCls(T) == (IF T.fnl = 1 THEN "final-newline" ELSE "no-final-newline") \o (IF T.recs[1].eol = 2 THEN "/crlf" ELSE "/lf")
HasStrand0(rows) == \E q \in 1..Len(rows) : IsFrag(rows[q]) /\ rows[q].st = 0

JIdx(T, f, nl, R) ==
  IF R.exc # "" THEN Say(T, "V", "C04.index_quintuple", FileCls(T) \o "/exc:" \o R.exc)
  ELSE
  /\ ((Len(R.idx) = Len(f) /\ \A j \in 1..Len(f) : R.idx[j] = DefIndex(f, nl, j)) \/ Say(T, "V", "C04.index_quintuple", FileCls(T)))
  /\ ((Len(R.rows) = Len(f) /\ \A j \in 1..Len(f) : R.rows[j] = DefRows(f[j].name, f[j].res)) \/ Say(T, "V", "C04.derived_assembly", FileCls(T)))
  /\ ((R.idx = T.idxruns[1].idx /\ R.rows = T.idxruns[1].rows) \/ Say(T, "V", "C13.index_buffer_independent", FileCls(T)))
  /\ (R.maxbuf <= R.B + T.maxline \/ Say(T, "V", "C13.index_buffer_bounded", FileCls(T)))
  /\ ((Len(R.idx) = Len(f) /\ \A j \in 1..Len(f) : LET m == RunRecord(f, nl, j, R.B) IN R.idx[j] = m.idx /\ R.rows[j] = m.rows)
        \/ Say(T, "M", "index_fasta_file", FileCls(T)))
  /\ (R.maxbuf = Max({RunRecord(f, nl, j, R.B).maxheld : j \in 1..Len(f)}) \/ Say(T, "M", "seq_buffer", FileCls(T)))

JRead(T, f, r) == (r.exc = "" /\ r.got = SubSeq(f[r.k].res, r.s, r.e)) \/ Say(T, "V", "C04.random_access", FileCls(T))

Gc(S) == IF "gc" \in DOMAIN S THEN S.gc ELSE "N"
FirstSame(T, S) == CHOOSE q \in 1..Len(T.streams) : T.streams[q].a = S.a /\ T.streams[q].L = S.L /\ Gc(T.streams[q]) = Gc(S)
JStream(T, f, S) ==
  LET rows == T.asms[S.a]  cls == IF HasStrand0(rows) THEN "strand0" ELSE "stranded" IN
  IF S.exc # "" THEN Say(T, "V", "C03.record_content", "exc:" \o S.exc)
  ELSE
  /\ TLCSet(2, TLCGet(2) + 1)
  /\ (Flat(S.lines) = ExpectedG(f, rows, Gc(S)) \/ Say(T, "V", "C03.record_content", cls \o (IF Gc(S) = "N" THEN "" ELSE "/gap-character")))
  /\ (S.lines = Wrap(Flat(S.lines), S.L) \/ Say(T, "V", "C03.line_wrap", cls))
  /\ (S.hdr = 1 \/ Say(T, "V", "C03.record_header", cls))
  /\ (S.lines = T.streams[FirstSame(T, S)].lines \/ Say(T, "V", "C13.stream_buffer_independent", cls))
  /\ ((S.maxchunk <= S.B /\ S.maxread <= S.B) \/ Say(T, "V", "C13.chunk_bounded", cls))
  /\ (S.a > T.derived \/ Gc(S) # "N" \/ Flat(S.lines) = NormN(f[S.a].res) \/ Say(T, "V", "C04.stream_back", FileCls(T)))
  /\ (Gc(S) # "N" \/ (S.lines = StreamLines(f, rows, S.B, S.L) /\ (S.maxchunk = 0 \/ S.maxchunk = MaxChunk(f, rows, S.B))) \/ Say(T, "M", "write_scaffold", cls))
\* revpairs: <<a, b>> = assembly b is Scaffold.reverse() of assembly a (rows recorded from the real reversal)
JRevPair(T, pr) ==
  \A q1 \in 1..Len(T.streams) : \A q2 \in 1..Len(T.streams) :
     LET S1 == T.streams[q1]  S2 == T.streams[q2] IN
     (S1.a = pr[1] /\ S2.a = pr[2] /\ S1.B = S2.B /\ S1.L = S2.L /\ Gc(S1) = Gc(S2) /\ S1.exc = "" /\ S2.exc = "") =>
        /\ TLCSet(3, TLCGet(3) + 1)
        /\ (Flat(S2.lines) = RevComp(Flat(S1.lines))
              \/ Say(T, "V", "C14.stream_reverse", IF HasStrand0(T.asms[pr[1]]) THEN "row-with-unknown-strand" ELSE "stranded"))
JFile(T) ==
  LET f == T.recs  nl == T.fnl = 1 IN
  /\ \A r \in 1..Len(T.idxruns) : JIdx(T, f, nl, T.idxruns[r])
  /\ \A r \in 1..Len(T.reads) : JRead(T, f, T.reads[r])
  /\ \A q \in 1..Len(T.streams) : JStream(T, f, T.streams[q])
  /\ \A q \in 1..Len(T.revpairs) : JRevPair(T, T.revpairs[q])

FlipT(rows) == [q \in 1..Len(rows) |-> LET r == rows[Len(rows) + 1 - q] IN IF IsFrag(r) THEN [r EXCEPT !.st = -r.st] ELSE r]
JRev(T) ==
  IF T.exc # "" THEN Say(T, "V", "C14.reverse_once", "exc:" \o T.exc)
  ELSE /\ (T.revrev = T.rows \/ Say(T, "V", "C14.reverse_twice", ""))
       /\ ((T.rev = FlipT(T.rows) /\ T.revlen = T.len) \/ Say(T, "V", "C14.reverse_once", ""))
       \* histories: a reversal after one of the two scaffolds was changed is the reversal of the rows as they are NOW
       /\ ((T.rev_again = FlipT(T.rows) /\ T.rev_of_changed = FlipT(T.changed) /\ T.rev_after_own_change = FlipT(T.own_changed))
             \/ Say(T, "V", "C14.reverse_once", "after-change"))
       /\ ("inplace" \notin DOMAIN T \/ (T.rev_of_inplace = FlipT(T.inplace) /\ T.rev_of_appended = FlipT(T.appended)
                                          /\ ("own_appended" \notin DOMAIN T \/ T.rev_after_own_append = FlipT(T.own_appended)))
             \/ Say(T, "V", "C14.reverse_once", "after-change-in-place"))

CompCodes == <<<<65, 84>>, <<66, 86>>, <<67, 71>>, <<68, 72>>, <<71, 67>>, <<72, 68>>, <<75, 77>>, <<77, 75>>, <<78, 78>>, <<82, 89>>, <<83, 83>>, <<84, 65>>, <<86, 66>>, <<87, 87>>, <<89, 82>>, <<97, 116>>, <<98, 118>>, <<99, 103>>, <<100, 104>>, <<103, 99>>, <<104, 100>>, <<107, 109>>, <<109, 107>>, <<110, 110>>, <<114, 121>>, <<115, 115>>, <<116, 97>>, <<118, 98>>, <<119, 119>>, <<121, 114>>>>
CompCode(b) == IF \E q \in 1..Len(CompCodes) : CompCodes[q][1] = b THEN CompCodes[CHOOSE q \in 1..Len(CompCodes) : CompCodes[q][1] = b][2] ELSE b
JTable(T) == /\ ((Len(T.table) = 256 /\ \A b \in 0..255 : T.table[b + 1] = CompCode(b)) \/ Say(T, "V", "C14.complement_table", "iupac"))
             /\ ((Len(T.table) = 256 /\ \A b \in 0..255 : T.table[T.table[b + 1] + 1] = b) \/ Say(T, "V", "C14.complement_table", "involution"))
JRc(T) == /\ (T.rc = [q \in 1..Len(T.s) |-> CompCode(T.s[Len(T.s) + 1 - q])] \/ Say(T, "V", "C14.revcomp_bytes", "once"))
          /\ (T.rcrc = T.s \/ Say(T, "V", "C14.revcomp_bytes", "twice"))

\* calibrated bounds of DESIGN.md section 5 (C13); the inputs are >= 100 buffers long, so holding a whole sequence, fragment
\* or gap exceeds them many times over
JMem(T) ==
  /\ (T.total >= 100 * T.B \/ Say(T, "M", "mem_input_too_small", T.what))
  /\ IF T.what = "index" THEN (T.peak <= 4 * (T.B + T.line) + 65536 /\ T.maxbuf <= T.B + T.line) \/ Say(T, "V", "C13.memory_bounded", "indexing")
     ELSE (T.peak <= 8 * T.B + 65536 /\ T.maxchunk <= T.B /\ T.maxread <= T.B) \/ Say(T, "V", "C13.memory_bounded", T.what)
JReject(T) == T.exc # "" \/ Say(T, "V", "C04.rejects_bad_files", T.what)

Judge(T) == /\ TLCSet(1, TLCGet(1) + 1)
            /\ CASE T.kind = "file" -> JFile(T) [] T.kind = "rev" -> JRev(T) [] T.kind = "table" -> JTable(T)
                 [] T.kind = "rc" -> JRc(T) [] T.kind = "mem" -> JMem(T) [] T.kind = "reject" -> JReject(T)
TInit == /\ tn = 0 /\ file = <<>> /\ fnl = FALSE /\ B = 0 /\ k = 0 /\ i = 0 /\ buf = <<>> /\ st = EmptySt /\ rpl = 0
         /\ maxheld = 0 /\ idx = <<>> /\ asm = <<>> /\ phase = "x"
TNext == tn < Len(Traces) /\ tn' = tn + 1 /\ Judge(Traces[tn + 1]) = TRUE /\ UNCHANGED ivars
TraceSpec == TInit /\ [][TNext]_<<tn, ivars>>
Post == PrintT(<<"JUDGED", TLCGet(1)>>) /\ PrintT(<<"N", "streams", TLCGet(2)>>) /\ PrintT(<<"N", "reverse_pairs", TLCGet(3)>>)
====
