---- MODULE FastaScen ----
(* Scenario export for the FASTA engine: every file of the bounded universe (Files x final newline).  *)
(* Also scaffolds for the reversal laws of C14 (rows with strands +, -, unknown, and tags).            *)
EXTENDS Fasta, Json
CONSTANT Which
VARIABLE sc
RevRowPool == {[k |-> "F", name |-> nm, s |-> iv[1], e |-> iv[2], st |-> sg, tags |-> tg] :
                 nm \in {"c1", "c2"}, iv \in {<<1, 1>>, <<3, 7>>}, sg \in {1, -1, 0}, tg \in {<<>>, <<"Painted", "X">>}}
              \cup {[k |-> "G", name |-> ty, s |-> 1, e |-> n, st |-> 0, tags |-> <<>>] : ty \in {"scaffold", "contig"}, n \in {1, 200}}
RevScaffolds == UNION {[1..n -> RevRowPool] : n \in 0..2}
ScenInit == IF Which = "files" THEN IInit /\ sc = 0
            ELSE sc \in RevScaffolds /\ file = <<>> /\ fnl = FALSE /\ B = 0 /\ k = 0 /\ i = 0 /\ buf = <<>> /\ st = EmptySt /\ rpl = 0
                 /\ maxheld = 0 /\ idx = <<>> /\ asm = <<>> /\ phase = "x"
ScenNext == FALSE /\ UNCHANGED <<ivars, sc>>
Emit == IF Which = "files" THEN PrintT(ToJson([recs |-> file, fnl |-> IF fnl THEN 1 ELSE 0])) ELSE PrintT(ToJson([rows |-> sc]))
====
