---- MODULE AgpTpfTrace ----
(***************************************************************************************************)
(* Trace validation for C05 and C06.  Trace kinds (recorded from the real code):                   *)
(*  "rt"      an abstract assembly written and read back by the real format_agp / parse_agp /      *)
(*            format_tpf / parse_tpf, and converted AGP -> TPF -> AGP by the asm-format CLI        *)
(*  "corrupt" a canonical text with one corrupted line fed to the real parser                      *)
(*  "agp"     an AGP text the tools wrote (asm-format, pretext-to-asm, the .agp cache), projected  *)
(*            to line records with integer columns, plus the expected object lengths               *)
(***************************************************************************************************)
EXTENDS AsmFormatCli, IOUtils, TLCExt
Traces == JsonDeserialize(IOEnv.TRACE_FILE)
ASSUME TLCSet(1, 0) /\ TLCSet(2, 0) /\ TLCSet(3, 0) /\ TLCSet(4, 0)
VARIABLE tn
Say(T, kind, clause, detail) == PrintT(<<kind, T.tid, clause, detail>>)
Cls(T) == IF T.big = 1 THEN "big-coordinates" ELSE IF TpfExpressible(T.asm) THEN "tpf-expressible" ELSE "agp-only"
JRt(T) ==
  LET a == T.asm IN
  IF ~DistinctAdjacentNames(a) THEN TRUE ELSE     \* outside the domain: neither format can tell two consecutive same-named scaffolds apart
  /\ ((T.agp_exc = "" /\ T.agp_parsed = a) \/ Say(T, "V", "C05.agp_roundtrip", Cls(T) \o (IF T.agp_exc # "" THEN "/exc:" \o T.agp_exc ELSE "")))
  /\ (T.agp_reformat = T.agp \/ Say(T, "V", "C05.agp_canonical_reformat", Cls(T)))
  /\ (T.big = 1 \/ T.agp = FormatAGP(a) \/ Say(T, "M", "format_agp", Cls(T)))
  /\ IF TpfExpressible(a)
     THEN /\ ((T.tpf_exc = "" /\ T.tpf_parsed = a) \/ Say(T, "V", "C05.tpf_roundtrip", Cls(T) \o (IF T.tpf_exc # "" THEN "/exc:" \o T.tpf_exc ELSE "")))
          /\ (T.tpf_reformat = T.tpf \/ Say(T, "V", "C05.tpf_canonical_reformat", Cls(T)))
          /\ (T.big = 1 \/ T.tpf = FormatTPF(a) \/ Say(T, "M", "format_tpf", Cls(T)))
     ELSE \* what TPF cannot carry (tags, unknown strand, a scaffold starting with a gap) is outside the statement: only a hang is judged
          (T.tpf_exc # "HANG" \/ Say(T, "V", "C05.tpf_roundtrip", Cls(T) \o "/hang"))
  /\ (~TpfExpressible(NoTags(a)) \/ (T.cli_exc = "" /\ T.cli_a2t2a = NoTags(a)) \/ Say(T, "V", "C05.agp_tpf_agp_drops_only_tags", Cls(T)))
  /\ TLCSet(2, TLCGet(2) + 1)
\* every non-blank, non-comment line yields exactly one row or an error
\* M-level: the parsers as modelled reject these corruptions outright (the statement itself is satisfied by "exactly one row" as well)
MustRaise == {"bad-strand", "non-numeric-start", "bad-name-format", "extra-column", "only-two-columns", "drop-column-2", "gap-first"}
JCorrupt(T) == /\ ((T.exc # "" \/ T.nrows = T.nlines) \/ Say(T, "V", "C05.one_row_per_line_or_error", T.fmt \o "/" \o T.what))
               /\ ((T.what \notin MustRaise \/ T.exc # "") \/ Say(T, "M", "parser_accepts_corrupt_line", T.fmt \o "/" \o T.what))
ObjectRepeated(lines) == \E q \in 2..Len(lines) : lines[q].obj = lines[q - 1].obj /\ lines[q].part = 1 /\ lines[q].beg = 1
JAgp(T) ==
  /\ TLCSet(3, TLCGet(3) + 1)
  /\ (T.lossless = 1 \/ Say(T, "V", "C06.agp_valid", T.src \o "/unparsable-columns"))
  \* (detail: an object whose lines start again at part 1 directly after its own last line is named as such - two scaffolds of one name)
  /\ (T.lossless = 0 \/ AgpValid(T.lines) \/ Say(T, "V", "C06.agp_valid", T.src \o (IF ObjectRepeated(T.lines) THEN "/object-repeated" ELSE "")))
  /\ (T.lossless = 0 \/ (\A q \in 1..Len(T.expect) : T.expect[q].obj \in Objects(T.lines) /\ ObjLength(T.lines, T.expect[q].obj) = T.expect[q].len)
        \/ Say(T, "V", "C06.object_length", T.src))
\* asm-format command line (AsmFormatCli.tla): T.sc = scenario, T.exit / T.exc, T.where in {"stdout", "file"}, T.lines = output split into fields
\* (AGP / TPF output), T.reprs = the assemblies its REPR output evaluates to [name, header, scaffolds], T.nonempty.  Model-drift clauses.
JAf(T) ==
  LET s == T.sc  failed == T.exit # 0 \/ T.exc # ""  of == OutFormat(s.f, s.o) IN
  /\ TLCSet(4, TLCGet(4) + 1)
  /\ ((failed <=> Fails(s)) \/ Say(T, "M", "asm_format_cli", "fails-iff-unknown-format"))
  /\ (failed \/ T.where = (IF s.o = "" THEN "stdout" ELSE "file") \/ Say(T, "M", "asm_format_cli", "output-destination"))
  \* C05 ("asm-format output"): converting through the tool loses and adds no line - the text written is the inputs, each in the output format
  /\ (failed \/ of \notin {"AGP", "TPF"} \/ T.lines = ExpectedLines(s)
        \/ Say(T, "V", "C05.asm_format_output", of \o (IF NInputs(s) > 1 THEN "/several-inputs" ELSE IF s.files = <<>> THEN "/stdin" ELSE "/one-input")
                                                   \o (IF s.o = "" THEN "/to-stdout" ELSE "/to-file")))
  /\ (failed \/ of # "REPR" \/ (Len(T.reprs) = NInputs(s) /\ \A k \in 1..NInputs(s) :
          T.reprs[k].name = ExpectedNames(s)[k] /\ T.reprs[k].header = AsmOf(s, k).header /\ T.reprs[k].scaffolds = AsmOf(s, k).scaffolds)
        \/ Say(T, "M", "asm_format_cli", "repr"))
  /\ (failed \/ of # "STR" \/ T.nonempty = 1 \/ Say(T, "M", "asm_format_cli", "str"))
Judge(T) == TLCSet(1, TLCGet(1) + 1) /\ CASE T.kind = "rt" -> JRt(T) [] T.kind = "corrupt" -> JCorrupt(T) [] T.kind = "agp" -> JAgp(T) [] T.kind = "afcli" -> JAf(T)
TInit == tn = 0 /\ asm = <<>> /\ sc = 0
TNext == tn < Len(Traces) /\ tn' = tn + 1 /\ Judge(Traces[tn + 1]) = TRUE /\ UNCHANGED <<asm, sc>>
TraceSpec == TInit /\ [][TNext]_<<tn, asm, sc>>
Post == PrintT(<<"JUDGED", TLCGet(1)>>) /\ PrintT(<<"N", "round_trips", TLCGet(2)>>) /\ PrintT(<<"N", "agp_texts", TLCGet(3)>>) /\ PrintT(<<"N", "asm_format_cli_runs", TLCGet(4)>>)
====
