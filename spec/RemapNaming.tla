---- MODULE RemapNaming ----
(***************************************************************************************************)
(* The naming layer of the remapper on top of Remap.tla, as the code performs it (one haplotype):  *)
(* ScaffoldNamer while the Pretext scaffolds are walked in file order (name / rank from a name tag, *)
(* from Painted, or from the first piece's source; Target mode; per piece the precedence           *)
(* FalseDuplicate > Haplotig > Unloc, Contaminant also from Target mode; H_n and _unloc_n counters  *)
(* consumed BEFORE trim_large_overhangs may drop the result), unlocs renamed by size at the end of  *)
(* each Pretext scaffold, haplotigs after the cuts, fusing by (name, tag), ChrNamer numbering by    *)
(* total fragment length (stable), left-overs (Contaminant iff Target mode was ever switched on).   *)
(* Names are structural: <<"A", n>> autosome n, <<"UL", base, k>> unloc, <<"C", tag>> name-tagged,  *)
(* <<"P", g>> Pretext scaffold g, <<"U", src>> keeps an input name, <<"H", n>> haplotig; RenderName *)
(* turns them into strings.  Used for conformance only (M-clause "naming" of RemapTrace.tla); the   *)
(* verdicts of C09 / C10 come from PieceDest and NamingProps.tla.                                   *)
(***************************************************************************************************)
EXTENDS Remap
TagsOf(pc) == Range(pc.tags)
GroupTags(g) == UNION {TagsOf(g.pieces[i]) : i \in 1..Len(g.pieces)}
ChrNameTags == {"X", "W", "B1", "Z", "I", "I_II", "2RL", "U"}
\* ---- find phase with labelling; state adds namer + per-or labels ----
\* or label: [name, tag, rank, orig]   names are tuples: <<"P", g>> painted scaffold, <<"U", src>>, <<"C", tag>>, <<"H", n>>, <<"UL", base, n>>
FindN(input, map, E) ==
  FoldLeft(LAMBDA st, g :
    LET grp == map[g]  gt == GroupTags(grp)
        nameTags == gt \cap ChrNameTags
        painted == grp.painted = 1
        target == st.target \/ "Target" \in gt
        curName == IF nameTags # {} THEN <<"C", CHOOSE x \in nameTags : TRUE>>
                   ELSE IF painted THEN <<"P", g>> ELSE <<"U", grp.pieces[1].src>>
        curRank == IF nameTags # {} THEN 2 ELSE IF painted THEN 1 ELSE 3
        st0 == [st EXCEPT !.target = target, !.unlocs = <<>>, !.unlocN = 0]
        st1 == FoldLeft(LAMBDA a, i :
                 LET pc == grp.pieces[i]  lk == PLookup(SrcRows(input, pc.src), pc.a, pc.b) IN
                 IF lk.none THEN a
                 ELSE LET pt == TagsOf(pc)
                          contam == "Contaminant" \in pt \/ (target /\ "Target" \notin gt)
                          isFD == "FalseDuplicate" \in pt
                          isH == ~isFD /\ "Haplotig" \in pt
                          isU == ~isFD /\ ~isH /\ "Unloc" \in pt
                          hn == IF isH THEN a.hapN + 1 ELSE a.hapN
                          un == IF isU THEN a.unlocN + 1 ELSE a.unlocN
                          nm == IF isH THEN <<"H", hn>> ELSE IF isU THEN <<"UL", curName, un>> ELSE curName
                          tg == IF isFD THEN "FalseDuplicate" ELSE IF isH THEN "Haplotig" ELSE IF contam THEN "Contaminant" ELSE "none"
                          rk == IF isFD \/ isH \/ contam THEN 3 ELSE curRank
                          o0 == [bait |-> pc, g |-> g, start |-> lk.start, end |-> lk.end, rows |-> lk.rows, name |-> nm, tag |-> tg, rank |-> rk]
                          o == PTrimLarge(o0, E)
                          \* labelling happens before the trim: counters and rename lists are consumed even if the result is dropped
                          kept == o.rows # <<>>
                          oid == Len(a.core.ors) + 1
                          core2 == IF kept THEN StoreOR([a.core EXCEPT !.ors = Append(@, o)], oid, o) ELSE a.core
                      IN [a EXCEPT !.core = core2, !.hapN = hn, !.unlocN = un,
                                   !.haps = IF isH THEN Append(@, [oid |-> IF kept THEN oid ELSE 0, len |-> o.end - o.start + 1, name |-> nm]) ELSE @,
                                   !.unlocs = IF isU THEN Append(@, [oid |-> IF kept THEN oid ELSE 0, len |-> o.end - o.start + 1, name |-> nm]) ELSE @],
               st0, [i \in 1..Len(grp.pieces) |-> i])
        \* rename_unlocs_by_size: names in creation order handed out by decreasing length (stable)
        ul == st1.unlocs
        ord == StableSortIds([i \in 1..Len(ul) |-> i], LAMBDA i : 0 - ul[i].len)
        core3 == FoldLeft(LAMBDA c, j : IF ul[ord[j]].oid = 0 THEN c ELSE [c EXCEPT !.ors[ul[ord[j]].oid].name = ul[j].name], st1.core, [j \in 1..Len(ul) |-> j])
    IN [st1 EXCEPT !.core = core3],
    [core |-> [ors |-> <<>>, found |-> <<>>, multi |-> <<>>], target |-> FALSE, hapN |-> 0, unlocN |-> 0, haps |-> <<>>, unlocs |-> <<>>],
    [g \in 1..Len(map) |-> g])

RenameHaps(ors, haps) ==
  LET lens == [i \in 1..Len(haps) |-> IF haps[i].oid = 0 THEN haps[i].len ELSE ors[haps[i].oid].end - ors[haps[i].oid].start + 1]
      ord == StableSortIds([i \in 1..Len(haps) |-> i], LAMBDA i : 0 - lens[i])
  IN FoldLeft(LAMBDA c, j : IF haps[ord[j]].oid = 0 THEN c ELSE [c EXCEPT ![haps[ord[j]].oid].name = haps[j].name], ors, [j \in 1..Len(haps) |-> j])

FuseN(ors, input, found, target, FixGap, FixTag) ==
  LET items == [i \in 1..Len(ors) |-> [name |-> ors[i].name, tag |-> ors[i].tag, rank |-> ors[i].rank, g |-> ors[i].g,
                                       rows |-> IF ors[i].bait.st = -1 THEN RevRows(ors[i].rows) ELSE ors[i].rows, isor |-> TRUE]]
            \o SelectSeq([i \in 1..Len(input) |-> [name |-> <<"U", input[i].name>>, tag |-> IF target THEN "Contaminant" ELSE "none", rank |-> 3, g |-> 0,
                                                  rows |-> Leftover(input[i], found), isor |-> FALSE]], LAMBDA x : x.rows # <<>>)
      same(a, it) == a.name = it.name /\ (~FixTag \/ a.tag = it.tag)
  IN FoldLeft(LAMBDA acc, it :
        IF it.rows = <<>> THEN acc
        ELSE LET pos == {j \in 1..Len(acc) : same(acc[j], it)} IN
             IF pos = {} THEN Append(acc, [name |-> it.name, tag |-> it.tag, rank |-> it.rank, g |-> it.g, rows |-> it.rows])
             ELSE LET j == Min(pos) IN [acc EXCEPT ![j].rows = @ \o (IF it.isor \/ FixGap THEN <<JoinGapRow>> ELSE <<>>) \o it.rows],
        <<>>, items)
FragLen(rows) == FoldLeft(LAMBDA a, r : IF IsFrag(r) THEN a + RowLen(r) ELSE a, 0, rows)
\* ChrNamer, one haplotype: a group per original Pretext scaffold among untagged rank-1 scaffolds, in order of appearance;
\* groups ranked by total fragment length (stable); <<"P", g>> becomes <<"A", n>>, unloc bases follow
ChrNumber(fused) ==
  LET autos == SelectSeq(fused, LAMBDA s : s.tag = "none" /\ s.rank = 1)
      gs == FoldLeft(LAMBDA a, s : IF Contains(a, s.g) THEN a ELSE Append(a, s.g), <<>>, autos)
      tot(g) == FoldLeft(LAMBDA a, s : IF s.g = g THEN a + FragLen(s.rows) ELSE a, 0, autos)
      ord == StableSortIds(gs, LAMBDA g : 0 - tot(g))
  IN [g \in Range(gs) |-> CHOOSE n \in 1..Len(ord) : ord[n] = g]
FinalName(s, num) ==
  IF s.tag = "none" /\ s.rank = 1 THEN (IF s.name[1] = "P" THEN <<"A", num[s.g]>> ELSE IF s.name[1] = "UL" THEN <<"UL", <<"A", num[s.g]>>, s.name[3]>> ELSE s.name)
  ELSE s.name
PipelineN(input, map, E, FixRev, FixGap, FixTag) ==
  LET f == FindN(input, map, E)
      r == Resolve(f.core, E)
      c == CutPhase(r, input, FixRev)
      ors2 == IF c.ok THEN RenameHaps(c.ors, f.haps) ELSE <<>>
      fused == IF c.ok THEN FuseN(ors2, input, f.core.found, f.target, FixGap, FixTag) ELSE <<>>
      num == ChrNumber(fused)
  IN [ok |-> c.ok, out |-> [i \in 1..Len(fused) |-> [asm |-> fused[i].tag, name |-> FinalName(fused[i], num), rank |-> fused[i].rank, rows |-> fused[i].rows]]]


RECURSIVE RenderName(_, _, _)
RenderName(n, rank, prefix) ==
  IF n[1] = "A" THEN prefix \o ToString(n[2])
  ELSE IF n[1] = "UL" THEN RenderName(n[2], rank, prefix) \o "_unloc_" \o ToString(n[3])
  ELSE IF n[1] = "C" THEN (IF rank = 2 THEN prefix \o n[2] ELSE n[2])
  ELSE IF n[1] = "P" THEN "Scaffold_" \o ToString(n[2])
  ELSE IF n[1] = "H" THEN "H_" \o ToString(n[2])
  ELSE n[2]
====
