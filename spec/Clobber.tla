---- MODULE Clobber ----
(***************************************************************************************************)
(* C16.  The output phase of pretext-to-asm as an ordered list of open-for-write operations.       *)
(*                                                                                                 *)
(* N output files are opened in a fixed order (log, info yaml, assembly files with their AGP       *)
(* companions, CSV reports); with --clobber each is opened in mode "w", with --no-clobber in mode   *)
(* "x" (exclusive create).  fs[k] is "absent", "old" (pre-existing, junk content) or "new".        *)
(* The first failing exclusive create ends the run with exit status 1 and names that file.         *)
(* TLC enumerates every subset of pre-existing outputs x clobber on/off; the same configurations   *)
(* are executed by the real CLI and judged by ClobberTrace.tla.                                    *)
(***************************************************************************************************)
EXTENDS Naturals, Integers, FiniteSets, Sequences, TLC
CONSTANTS N, MaxPre      \* number of output files of the run; largest subset size explored (N = all)
VARIABLES pre, clobber, fs, k, exit, named
vars == <<pre, clobber, fs, k, exit, named>>
Init == /\ pre \in {S \in SUBSET (1..N) : Cardinality(S) <= MaxPre \/ S = 1..N}
        /\ clobber \in BOOLEAN
        /\ fs = [f \in 1..N |-> IF f \in pre THEN "old" ELSE "absent"]
        /\ k = 1 /\ exit = -1 /\ named = 0
OpenNext == /\ exit = -1 /\ k <= N
            /\ IF ~clobber /\ fs[k] # "absent"
               THEN exit' = 1 /\ named' = k /\ UNCHANGED <<fs, k>>
               ELSE fs' = [fs EXCEPT ![k] = "new"] /\ k' = k + 1 /\ UNCHANGED <<exit, named>>
            /\ UNCHANGED <<pre, clobber>>
Finish == exit = -1 /\ k = N + 1 /\ exit' = 0 /\ UNCHANGED <<pre, clobber, fs, k, named>>
Next == OpenNext \/ Finish
Spec == Init /\ [][Next]_vars /\ WF_vars(Next)
\* C16 at design level
NoClobberSafe == (exit # -1 /\ ~clobber /\ pre # {}) => exit = 1 /\ named \in pre /\ \A f \in pre : fs[f] = "old"
ClobberRewrites == (exit # -1 /\ clobber) => exit = 0 /\ \A f \in 1..N : fs[f] = "new"
FreshRunSucceeds == (exit # -1 /\ pre = {}) => exit = 0 /\ \A f \in 1..N : fs[f] = "new"
Terminates == <>(exit # -1)
\* (scenario export: ClobberScen.tla; unbounded proof of NoClobberSafe for every N: proofs/ClobberProof.tla)
====
