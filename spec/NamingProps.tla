---- MODULE NamingProps ----
(***************************************************************************************************)
(* The predicates of C10 (names), written from the statement, over one recorded execution on a     *)
(* scenario of Chromosomes.tla:  T.map[g] = [chr, hap, painted, nm, pieces |-> <<[src, a, b, st,   *)
(* role, tags]>>] (role in main / unloc / haplotig / unplaced), T.out = all output scaffolds in    *)
(* output order [asm, name, rank, rows, ...], T.csv = <<[asm, lines |-> <<<<name, chr, loc>>>>]>>. *)
(***************************************************************************************************)
EXTENDS RemapProps
Pfx(T) == T.prefix
\* the output scaffold that holds input scaffold `src` (every piece is a whole input scaffold)
OutOf(T, src) == CHOOSE o \in 1..Len(T.out) : \E f \in Range(Frags(T.out[o].rows)) : f.name = src
Placed(T, src) == \E o \in 1..Len(T.out) : \E f \in Range(Frags(T.out[o].rows)) : f.name = src
PiecesOf(grp, role) == {p \in 1..Len(grp.pieces) : grp.pieces[p].role = role}
MainOf(grp) == grp.pieces[CHOOSE p \in PiecesOf(grp, "main") : TRUE]
ChrGroups(T) == {g \in 1..Len(T.map) : T.map[g].chr > 0}
NameOfGroup(T, g) == T.out[OutOf(T, MainOf(T.map[g]).src)].name
Total(grp) == FoldSet(LAMBDA p, acc : acc + (grp.pieces[p].b - grp.pieces[p].a + 1), 0, PiecesOf(grp, "main") \cup PiecesOf(grp, "unloc"))
Autosomes(T) == {g \in ChrGroups(T) : T.map[g].hap = 1 /\ T.map[g].nm = ""}
AllPlaced(T) == \A g \in 1..Len(T.map) : \A p \in 1..Len(T.map[g].pieces) : Placed(T, T.map[g].pieces[p].src)

UniqueNames(T) == \A o1, o2 \in 1..Len(T.out) : (o1 < o2 /\ T.out[o1].asm = T.out[o2].asm) => T.out[o1].name # T.out[o2].name
\* painted scaffolds without a name tag are <prefix>1..<prefix>n without holes ...
AutosomesDense(T) == LET A == Autosomes(T) IN {NameOfGroup(T, g) : g \in A} = {Pfx(T) \o ToString(i) : i \in 1..Cardinality(A)}
NumOf(T, g) == CHOOSE i \in 1..Cardinality(Autosomes(T)) : NameOfGroup(T, g) = Pfx(T) \o ToString(i)
\* ... in non-increasing order of sequence length (chromosome plus its unlocs; the first haplotype decides)
AutosomesSorted(T) == \A g1, g2 \in Autosomes(T) : NumOf(T, g1) < NumOf(T, g2) => Total(T.map[g1]) >= Total(T.map[g2])
\* homologues grouped with a first-haplotype chromosome share its number (A, B, ... when there are several)
Homologues(T, c) == SelectSeq([g \in 1..Len(T.map) |-> g], LAMBDA g : T.map[g].chr = c /\ T.map[g].hap = 2)
FirstOf(T, c) == CHOOSE g \in ChrGroups(T) : T.map[g].chr = c /\ T.map[g].hap = 1
Letters == <<"A", "B", "C">>
HomologuesShareNumber(T) ==
  \A g \in Autosomes(T) : LET hs == Homologues(T, T.map[g].chr)  base == Pfx(T) \o ToString(NumOf(T, g)) IN
     \A q \in 1..Len(hs) : NameOfGroup(T, hs[q]) = (IF Len(hs) = 1 THEN base ELSE base \o Letters[q])
NameTagged(T) == \A g \in ChrGroups(T) : T.map[g].nm # "" => NameOfGroup(T, g) = Pfx(T) \o T.map[g].nm /\ T.out[OutOf(T, MainOf(T.map[g]).src)].rank = 2
UnlocNames(T) == \A g \in ChrGroups(T) : LET U == PiecesOf(T.map[g], "unloc") IN
   {T.out[OutOf(T, T.map[g].pieces[p].src)].name : p \in U} = {NameOfGroup(T, g) \o "_unloc_" \o ToString(m) : m \in 1..Cardinality(U)}
\* "unloc pieces <chromosome>_unloc_1..m ... in non-increasing length" (the tool's help: sorted and numbered from longest to shortest)
UnlocsSortedBySize(T) == \A g \in ChrGroups(T) : LET U == PiecesOf(T.map[g], "unloc") IN
   \A p1, p2 \in U : \A m \in 1..(Cardinality(U) - 1) :
      (T.out[OutOf(T, T.map[g].pieces[p1].src)].name = NameOfGroup(T, g) \o "_unloc_" \o ToString(m)
       /\ T.out[OutOf(T, T.map[g].pieces[p2].src)].name = NameOfGroup(T, g) \o "_unloc_" \o ToString(m + 1))
      => (T.map[g].pieces[p1].b - T.map[g].pieces[p1].a) >= (T.map[g].pieces[p2].b - T.map[g].pieces[p2].a)
HaploPieces(T) == {x \in AllPieces(T) : T.map[x[1]].pieces[x[2]].role = "haplotig"}
HaplotigsNamedAndSorted(T) ==
  LET H == HaploPieces(T)  outs == {OutOf(T, T.map[x[1]].pieces[x[2]].src) : x \in H} IN
  /\ \A o \in outs : T.out[o].asm = "Haplotig"
  /\ {T.out[o].name : o \in outs} = {"H_" \o ToString(i) : i \in 1..Cardinality(H)}
  /\ \A o1, o2 \in outs : \A i \in 1..(Cardinality(H) - 1) :
        (T.out[o1].name = "H_" \o ToString(i) /\ T.out[o2].name = "H_" \o ToString(i + 1)) => SumLen(T.out[o1].rows) >= SumLen(T.out[o2].rows)
\* output order: rank first; autosomes in number order (A before B); an autosome's unlocs directly after it
AsmSeq(T, a) == SelectSeq([o \in 1..Len(T.out) |-> o], LAMBDA o : T.out[o].asm = a)
CuratedAsms(T) == {T.out[o].asm : o \in 1..Len(T.out)} \ {"Haplotig", "Contaminant", "FalseDuplicate"}
RoleOfOut(T, o) == LET x == CHOOSE y \in AllPieces(T) : \E f \in Range(Frags(T.out[o].rows)) : f.name = T.map[y[1]].pieces[y[2]].src
                   IN T.map[x[1]].pieces[x[2]].role
IsMapped(T, o) == \E y \in AllPieces(T) : \E f \in Range(Frags(T.out[o].rows)) : f.name = T.map[y[1]].pieces[y[2]].src
GroupOfOut(T, o) == (CHOOSE y \in AllPieces(T) : \E f \in Range(Frags(T.out[o].rows)) : f.name = T.map[y[1]].pieces[y[2]].src)[1]
OutputOrder(T) ==
  \A a \in CuratedAsms(T) : LET sq == AsmSeq(T, a) IN
    /\ \A q \in 1..(Len(sq) - 1) : T.out[sq[q]].rank <= T.out[sq[q + 1]].rank
    \* ("an autosome's unlocs directly after it": rank 1 only - a named chromosome's unlocs need not follow it, SUPER_I_II sorts between
    \*  SUPER_I and SUPER_I_unloc_1)
    /\ \A q \in 1..Len(sq) : (IsMapped(T, sq[q]) /\ RoleOfOut(T, sq[q]) = "unloc" /\ T.out[sq[q]].rank = 1) =>
          (q > 1 /\ IsMapped(T, sq[q - 1]) /\ GroupOfOut(T, sq[q - 1]) = GroupOfOut(T, sq[q]) /\ RoleOfOut(T, sq[q - 1]) \in {"main", "unloc"})
    /\ \A q1, q2 \in 1..Len(sq) :
          (IsMapped(T, sq[q1]) /\ IsMapped(T, sq[q2]) /\ RoleOfOut(T, sq[q1]) = "main" /\ RoleOfOut(T, sq[q2]) = "main"
           /\ T.out[sq[q1]].rank = 1 /\ T.out[sq[q2]].rank = 1 /\ q1 < q2)
          => LET g1 == GroupOfOut(T, sq[q1])  g2 == GroupOfOut(T, sq[q2])
                 n1 == NumOf(T, FirstOf(T, T.map[g1].chr))  n2 == NumOf(T, FirstOf(T, T.map[g2].chr))
             IN n1 < n2 \/ (n1 = n2 /\ g1 < g2)
\* the chromosome-list CSV: one line per chromosome or unloc scaffold, in output order, localised = no exactly for unlocs
CsvMatches(T) ==
  \A k \in 1..Len(T.csv) : LET a == T.csv[k].asm  lines == T.csv[k].lines
                               sq == SelectSeq(AsmSeq(T, a), LAMBDA o : T.out[o].rank \in {1, 2}) IN
     /\ Len(lines) = Len(sq)
     /\ \A q \in 1..Len(sq) : /\ lines[q][1] = T.out[sq[q]].name
                              /\ (lines[q][3] = "no") <=> (IsMapped(T, sq[q]) /\ RoleOfOut(T, sq[q]) = "unloc")
                              /\ lines[q][3] \in {"yes", "no"}
CsvPresent(T) == \A a \in CuratedAsms(T) : (\E o \in 1..Len(T.out) : T.out[o].asm = a /\ T.out[o].rank \in {1, 2}) => \E k \in 1..Len(T.csv) : T.csv[k].asm = a
====
